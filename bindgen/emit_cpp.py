"""Emulator of cbindgen's *C++ output shape* for CGlue APIs, driven by the same API model as
emit.py.  cbindgen emits generic Rust types as C++ templates (no monomorphisation), type
aliases as `using`, zero-sized typedefs (PhantomData) as opaque `template<typename X = void>
struct Name;` items, and unresolved associated types (`CGlueC::Context`) by their last path
segment.  Calibrated against examples/pregen-headers/bindings.hpp (see c17.py)."""
import re

import emit
from emit import VTBL_DOC, OBJ_DOC, CONT_DOC, ZST_DOC, RETTMP_DOC, BOX_DOC, ARC_DOC, GROUP_DOC, Emitted

INST_CPP = {"Box": "CBox<void>", "Mut": "void*", "Ref": "const void*"}
INST_FIELD = {"Box": "CBox<void>", "Mut": "void *", "Ref": "const void *"}
CTX_CPP = {"Arc": "CArc<void>", "": "NoContext"}

SLICE_DOC = """/**
 * Wrapper around const slices.
 *
 * This is meant as a safe type to pass across the FFI boundary with similar semantics as regular
 * slice. However, not all functionality is present, use the slice conversion functions.
 */
"""

CPP_TYPES = {
    "struct CSliceRef_u8": "CSliceRef<uint8_t>",
    "struct Pair": "Pair",
    "OpaqueCallback_Pair": "OpaqueCallback<Pair>",
    "struct CIterator_i32": "CIterator<int32_t>",
    "struct KeyValue": "KeyValue",
    "struct CTup2_i32__Pair": "CTup2<int32_t, Pair>",
}


def cpp_ty(t):
    return CPP_TYPES.get(t, t)


# int_result-style exports: the success value goes through a MaybeUninit<T> out-parameter; T may itself be generic
TUP_CPP = "template<typename A, typename B>\nstruct CTup2 {\n    A _0;\n    B _1;\n};\n"
UNINIT_FUNCS = [
    ("int32_t lookup_pair(CSliceRef<uint8_t> key, MaybeUninit<CTup2<CSliceRef<uint8_t>, uintptr_t>> *ok_out);",
     "int32_t lookup_pair(CSliceRef<uint8_t> key, CTup2<CSliceRef<uint8_t>, uintptr_t> *ok_out);"),
    ("int32_t lookup_nested(MaybeUninit<CTup2<CTup2<uint8_t, CSliceRef<uint8_t>>, CSliceRef<uint8_t>>> *ok_out, uint32_t flags);",
     "int32_t lookup_nested(CTup2<CTup2<uint8_t, CSliceRef<uint8_t>>, CSliceRef<uint8_t>> *ok_out, uint32_t flags);"),
    ("int32_t lookup_slice(MaybeUninit<CSliceRef<uint8_t>> *ok_out);", "int32_t lookup_slice(CSliceRef<uint8_t> *ok_out);"),
    ("int32_t lookup_plain(MaybeUninit<uint64_t> *ok_out, MaybeUninit<Pair> *second);", "int32_t lookup_plain(uint64_t *ok_out, Pair *second);"),
]

PRELUDE_CPP = (SLICE_DOC + "template<typename T>\nstruct CSliceRef {\n    const T *data;\n    uintptr_t len;\n};\n\nstruct Pair {\n    uint8_t a;\n    uint64_t b;\n};\n\n"
               "template<typename T, typename F>\nstruct Callback {\n    T *context;\n    bool (*func)(T*, F);\n};\n\ntemplate<typename T>\nusing OpaqueCallback = Callback<void, T>;\n")

PLUGIN_PRELUDE_CPP = (SLICE_DOC + "template<typename T>\nstruct CSliceRef {\n    const T *data;\n    uintptr_t len;\n};\n\nstruct KeyValue {\n    CSliceRef<uint8_t> _0;\n    uintptr_t _1;\n};\n\n"
                      "template<typename T, typename F>\nstruct Callback {\n    T *context;\n    bool (*func)(T*, F);\n};\n\ntemplate<typename T>\nusing OpaqueCallback = Callback<void, T>;\n\n"
                      "using KeyValueCallback = OpaqueCallback<KeyValue>;\n\n/**\n * FFI compatible iterator.\n */\ntemplate<typename T>\nstruct CIterator {\n    void *iter;\n    int32_t (*func)(void*, MaybeUninit<T> *out);\n};\n")

# unrelated user declarations in C++ form; several resemble CGlue patterns on purpose
USER_DECLS_CPP = [
    "struct UserThing {\n    int32_t x;\n    const char *name;\n};\n",
    "/**\n * A user struct whose name merely looks like a vtable.\n */\ntemplate<typename U>\nstruct UserTableVtbl {\n    int32_t (*run)(U *cont, int32_t x);\n    void *ret_tmp;\n};\n",
    "template<typename Context>\nstruct Settings {\n    uint32_t flags;\n    Context context;\n};\n",
    "constexpr static const uintptr_t USER_LIMIT = 42;\n",
    "enum class UserMode {\n    A = 0,\n    B = 1,\n};\n",
    "using user_handler = int32_t(*)(UserThing *thing, int32_t code);\n",
    "struct HolderRetTmp_like {\n    uint64_t ret_tmp_value;\n    uint8_t no_context_flag;\n};\n",
    "template<typename T>\nstruct UserBox {\n    T *instance;\n    uint32_t drop_fn;\n};\n",
    "template<typename T, typename C, typename R>\nstruct UserObjContainer {\n    T instance;\n    C context;\n    R ret_tmp;\n    uint8_t extra;\n};\n",
]
USER_FUNCS_CPP = ["int32_t user_thing_drop(UserThing *thing);", "void user_clone(const UserThing *from, UserThing *to);", "uint32_t settings_context_flags(const Settings<uint32_t> *s);"]


def alias_name(name, inst, ctx):
    return name + ("Arc" if ctx == "Arc" else "") + inst


def emit_cpp(model, user_cpp=None, funcs_cpp=None, prelude=None):
    """user_cpp: list of (position, text) in C++ form (defaults: translate nothing, use given)"""
    out = []
    em = Emitted()
    done = set()
    out.append("#include <cstdarg>\n#include <cstdint>\n#include <cstdlib>\n#include <ostream>\n#include <new>\n")
    pending_user = sorted(user_cpp or [], key=lambda x: x[0])
    nblocks = [0]

    def block(text):
        while pending_user and pending_user[0][0] <= nblocks[0]:
            out.append(pending_user.pop(0)[1] + "\n")
        out.append(text)
        nblocks[0] += 1

    def once(key, text):
        if key not in done:
            done.add(key)
            block(text)

    # ---- opaque items first (cbindgen writes opaque items in name order before structs) ----
    used_traits = []

    def collect(kind, name, inst, ctx, seen):
        if (kind, name, inst, ctx) in seen:
            return
        seen.add((kind, name, inst, ctx))
        ts = [name] if kind == "obj" else sorted(model.groups[name][0]) + sorted(model.groups[name][1])
        for t in ts:
            if t not in used_traits:
                used_traits.append(t)
            for m in model.traits[t].methods:
                if isinstance(m.ret, tuple):
                    collect(m.ret[0].replace("ptr", ""), m.ret[1], m.ret[2], ctx, seen)
            for _, (k, rn, ri) in model.traits[t].rettmp_fields:
                collect(k, rn, ri, ctx, seen)
    seen = set()
    for r in model.roots:
        collect(*r, seen=seen)
    opaque = []
    for t in used_traits:
        if not model.traits[t].rettmp_fields:
            opaque.append((t + "RetTmp", ZST_DOC.lstrip("\n") + "template<typename CGlueCtx = void>\nstruct %sRetTmp;\n" % t))
    opaque.append(("MaybeUninit", "template<typename T = void>\nstruct MaybeUninit;\n"))
    if any(c == "" for (_, _, _, c) in seen):
        opaque.append(("NoContext", "struct NoContext;\n"))
    for _, text in sorted(opaque):
        block(text)
    if prelude:
        block(prelude)

    def basics(inst, ctx):
        if ctx == "Arc":
            once("CArc", ARC_DOC + "template<typename T>\nstruct CArc {\n    const T *instance;\n    const T *(*clone_fn)(const T*);\n    void (*drop_fn)(const T*);\n};\n")
        if inst == "Box":
            once("CBox", BOX_DOC + "template<typename T>\nstruct CBox {\n    T *instance;\n    void (*drop_fn)(T*);\n};\n")

    def root_type(kind, name, inst, ctxexpr):
        """C++ type expression of a root with context expression ctxexpr (e.g. `Context`, `CGlueCtx`)"""
        if kind == "group":
            return "%s<%s, %s>" % (name, INST_CPP[inst], ctxexpr)
        return "CGlueTraitObj<%s, %sVtbl<CGlueObjContainer<%s, %s, %sRetTmp<%s>>>, %s, %sRetTmp<%s>>" % (INST_CPP[inst], name, INST_CPP[inst], ctxexpr, name, ctxexpr, ctxexpr, name, ctxexpr)

    def rettmp(trait):
        t = model.traits[trait]
        if t.rettmp_fields:
            fields = ""
            for fname, (kind, rname, rinst) in t.rettmp_fields:
                fields += "    MaybeUninit<%s> %s;\n" % (root_type(kind, rname, rinst, "CGlueCtx"), fname)
            once(trait + "RetTmp", RETTMP_DOC + "template<typename CGlueCtx>\nstruct %sRetTmp {\n%s};\n" % (trait, fields))

    def vtable(trait):
        t = model.traits[trait]
        lines = []
        for m in t.methods:
            c = {"ref": "const CGlueC *cont", "mut": "CGlueC *cont", "own": "CGlueC cont"}[m.recv]
            args = ""
            for ty, nm in m.args:
                ty = cpp_ty(ty)
                args += ", %s%s%s" % (ty, "" if (ty.endswith("*") or not nm) else " ", nm)
            if m.ret == "CONT":
                rt = "CGlueC "
            elif isinstance(m.ret, tuple):
                rt = root_type(m.ret[0].replace("ptr", ""), m.ret[1], m.ret[2], "Context") + (" *" if m.ret[0].endswith("ptr") else " ")
            else:
                r = cpp_ty(m.ret)
                rt = r + ("" if r.endswith("*") else " ")
            lines.append("    %s(*%s)(%s%s);" % (rt, m.name, c, args))
        once(trait + "Vtbl", (VTBL_DOC % trait) + "template<typename CGlueC>\nstruct %sVtbl {\n%s\n};\n" % (trait, "\n".join(lines)))

    def group_def(name):
        if ("group", name) in done:
            return
        mand, opt = model.groups[name]
        traits = sorted(mand) + sorted(opt)
        # wrapped returns first
        for t in traits:
            for m in model.traits[t].methods:
                if isinstance(m.ret, tuple):
                    define(m.ret[0].replace("ptr", ""), m.ret[1])
            for _, (k, rn, _ri) in model.traits[t].rettmp_fields:
                define(k, rn)
            rettmp(t)
        fields = "    CGlueInst instance;\n    CGlueCtx context;\n" + "".join("    %sRetTmp<CGlueCtx> ret_tmp_%s;\n" % (t, t.lower()) for t in traits)
        once(name + "Container", "template<typename CGlueInst, typename CGlueCtx>\nstruct %sContainer {\n%s};\n" % (name, fields))
        for t in traits:
            vtable(t)
        body = "".join("    const %sVtbl<%sContainer<CGlueInst, CGlueCtx>> *vtbl_%s;\n" % (t, name, t.lower()) for t in traits) + "    %sContainer<CGlueInst, CGlueCtx> container;\n" % name
        doc = GROUP_DOC % (" + ".join("%s < >" % t for t in traits), name)
        once(("group", name), doc + "template<typename CGlueInst, typename CGlueCtx>\nstruct %s {\n%s};\n" % (name, body))

    def obj_def(name):
        if ("obj", name) in done:
            return
        for m in model.traits[name].methods:
            if isinstance(m.ret, tuple):
                define(m.ret[0].replace("ptr", ""), m.ret[1])
        for _, (k, rn, _ri) in model.traits[name].rettmp_fields:
            define(k, rn)
        rettmp(name)
        once("CGlueObjContainer", CONT_DOC + "template<typename T, typename C, typename R>\nstruct CGlueObjContainer {\n    T instance;\n    C context;\n    R ret_tmp;\n};\n")
        vtable(name)
        once("CGlueTraitObj", OBJ_DOC + "template<typename T, typename V, typename C, typename R>\nstruct CGlueTraitObj {\n    const V *vtbl;\n    CGlueObjContainer<T, C, R> container;\n};\n")
        once(("obj", name), "/**\n * Base CGlue trait object for trait %s.\n */\ntemplate<typename CGlueInst, typename CGlueCtx>\nusing %sBase = CGlueTraitObj<CGlueInst, %sVtbl<CGlueObjContainer<CGlueInst, CGlueCtx, %sRetTmp<CGlueCtx>>>, CGlueCtx, %sRetTmp<CGlueCtx>>;\n" % (name, name, name, name, name))

    def define(kind, name):
        if kind == "group":
            group_def(name)
        else:
            obj_def(name)

    def aliases(kind, name, inst, ctx):
        """the alias chain cglue-gen declares, down to the opaque alias used by exported functions"""
        base = name + "Base" if kind == "obj" else name
        ptr = {"Mut": "CGlueT*", "Ref": "const CGlueT*"}
        al = alias_name(name, inst, ctx)
        if inst == "Box":
            once(name + "BaseCtxBox", "/**\n * CtxBoxed CGlue trait object for trait %s with context.\n */\ntemplate<typename CGlueT, typename CGlueCtx>\nusing %sBaseCtxBox = %s<CBox<CGlueT>, CGlueCtx>;\n" % (name, name, base))
            if ctx == "Arc":
                once(name + "BaseArcBox", "/**\n * Boxed CGlue trait object for trait %s with a [`CArc`](cglue::arc::CArc) reference counted context.\n */\ntemplate<typename CGlueT, typename CGlueC>\nusing %sBaseArcBox = %sBaseCtxBox<CGlueT, CArc<CGlueC>>;\n" % (name, name, name))
                once(al, "/**\n * Opaque Boxed CGlue trait object for trait %s with a [`CArc`](cglue::arc::CArc) reference counted context.\n */\nusing %s = %sBaseArcBox<void, void>;\n" % (name, al, name))
            else:
                once(name + "BaseBox", "/**\n * Boxed CGlue trait object for trait %s.\n */\ntemplate<typename CGlueT>\nusing %sBaseBox = %sBaseCtxBox<CGlueT, NoContext>;\n" % (name, name, name))
                once(al, "/**\n * Opaque Boxed CGlue trait object for trait %s.\n */\nusing %s = %sBaseBox<void>;\n" % (name, al, name))
        else:
            word = {"Mut": "mut", "Ref": "ref"}[inst]
            if ctx == "Arc":
                once(name + "BaseArc" + inst, "/**\n * By-%s CGlue trait object for trait %s with a [`CArc`](cglue::arc::CArc) reference counted context.\n */\ntemplate<typename CGlueT, typename CGlueC>\nusing %sBaseArc%s = %s<%s, CArc<CGlueC>>;\n" % (word, name, name, inst, base, ptr[inst]))
                once(al, "/**\n * Opaque by-%s CGlue trait object for trait %s with a [`CArc`](cglue::arc::CArc) reference counted context.\n */\nusing %s = %sBaseArc%s<void, void>;\n" % (word, name, al, name, inst))
            else:
                once(name + "Base" + inst, "/**\n * By-%s CGlue trait object for trait %s.\n */\ntemplate<typename CGlueT>\nusing %sBase%s = %s<%s, NoContext>;\n" % (word, name, name, inst, base, ptr[inst]))
                once(al, "/**\n * Opaque by-%s CGlue trait object for trait %s.\n */\nusing %s = %sBase%s<void>;\n" % (word, name, al, name, inst))
        return al

    for kind, name, inst, ctx in model.roots:
        basics(inst, ctx)
    for (kind, name, inst, ctx) in sorted(seen):
        basics(inst, ctx)
    for kind, name, inst, ctx in model.roots:
        define(kind, name)
        al = aliases(kind, name, inst, ctx)
        if kind == "group":
            mand, opt = model.groups[name]
            traits = sorted(mand) + sorted(opt)
            vt = [(t, "vtbl_%s" % t.lower(), "%sVtbl" % t) for t in traits]
            cont = "%sContainer<%s, %s>" % (name, INST_CPP[inst], CTX_CPP[ctx])
        else:
            vt = [(name, "vtbl", name + "Vtbl")]
            cont = "CGlueObjContainer<%s, %s, %sRetTmp<%s>>" % (INST_CPP[inst], CTX_CPP[ctx], name, CTX_CPP[ctx])
        em.roots.append(dict(key=(kind, name, inst, ctx), kind=kind, name=name, inst=inst, ctx=ctx, struct=al, container=cont, vtables=vt))
    while pending_user:
        out.append(pending_user.pop(0)[1] + "\n")
    out.append("extern \"C\" {\n")
    for f in (funcs_cpp if funcs_cpp is not None else []):
        out.append(f + "\n")
    out.append("} // extern \"C\"\n")
    em.text = "\n".join(out)
    return em


def plugin_api_cpp():
    m = emit.plugin_api_model()
    user = [(1, "/**\n * Wrapper around null-terminated C-style strings.\n *\n * Analog to Rust's `str`, [`ReprCStr`] borrows the underlying data.\n */\nusing ReprCStr = const char*;\n")]
    return m, emit_cpp(m, user_cpp=user, prelude=PLUGIN_PRELUDE_CPP,
                       funcs_cpp=["extern const TypeLayout *ROOT_LAYOUT;", "int32_t load_plugin(ReprCStr name, MaybeUninit<PluginInnerArcBox> *ok_out);"])


def random_cpp(seed, fnptr=False, wrapped=False, layout=False, plain=False, wrapped_ctx=None, force_ctx=None):
    import random
    m = emit.random_model(seed, fnptr=fnptr, wrapped=wrapped, plain=plain, wrapped_ctx=wrapped_ctx)
    if force_ctx is not None:
        # a header with one kind of context only
        seen_r, roots = set(), []
        for (k_, n_, i_, _c) in m.roots:
            if (k_, n_, i_) not in seen_r:
                seen_r.add((k_, n_, i_))
                roots.append((k_, n_, i_, force_ctx))
        m.roots = roots
    rng = random.Random(seed ^ 0x5eed)
    # now and then an argument whose type is a template with two parameters written out in the signature (CTup2<A, B>): the comma inside `<>` is not an argument separator
    for t in m.traits.values():
        for meth in t.methods:
            for ai, (ty, nm) in enumerate(meth.args):
                if nm and rng.random() < 0.12:
                    meth.args[ai] = ("struct CTup2_i32__Pair", nm)
    # now and then a trait outside a group shares an entry name with a trait inside it, while no two traits of the group do
    for gname, (mand, opt) in sorted(m.groups.items()):
        inside = [t for t in mand + opt if t != "Clone"]
        if not inside or not any(r[0] == "group" and r[1] == gname for r in m.roots) or rng.random() >= 0.9:
            continue
        cands = [mm.name for t in inside for mm in m.traits[t].methods if sum(1 for t2 in inside for x in m.traits[t2].methods if x.name == mm.name) == 1]
        if not cands:
            continue
        src = rng.choice(cands)
        outside = [t for t in m.traits if t != "Clone" and not m.traits[t].rettmp_fields and not any(t in g[0] + g[1] for g in m.groups.values())]
        if outside:
            tgt = m.traits[rng.choice(outside)]
            if all(mm.name != src for mm in tgt.methods):
                tgt.methods[0].name = src
        else:
            tgt = emit.Trait("Probe", [emit.Method(src, "ref", [], "uint64_t"), emit.Method("probe_reset", "mut", [("uint32_t", "a0")])])
            m.traits["Probe"] = tgt
        if not any(r[0] == "obj" and r[1] == tgt.name for r in m.roots):
            m.roots.append(("obj", tgt.name, "Box", ""))   # the trait must be in the header at all
        break
    # UserThing and Settings first: later user declarations and functions mention them
    user = [(0, USER_DECLS_CPP[0]), (0, USER_DECLS_CPP[2])]
    user += [(rng.randint(0, 12), u) for u in rng.sample(USER_DECLS_CPP[1:2] + USER_DECLS_CPP[3:], rng.randint(2, len(USER_DECLS_CPP) - 2))]
    funcs = list(rng.sample(USER_FUNCS_CPP, rng.randint(1, 3)))
    if layout:
        funcs.append(rng.choice(["extern const TypeLayout *ROOT_LAYOUT;", "const TypeLayout *get_root_layout();"]))
    # exported functions with MaybeUninit out-parameters (legitimately rewritten by the tool: kept apart from the foreign list)
    uninit = rng.sample(UNINIT_FUNCS, rng.randint(1, len(UNINIT_FUNCS)))
    # exported functions that mention the roots (what makes cbindgen emit them at all)
    for i, (kind, name, inst, ctx) in enumerate(m.roots):
        funcs.append("void use_root_%d(const %s *obj);" % (i, alias_name(name, inst, ctx)))
    em = emit_cpp(m, user_cpp=user, prelude=PRELUDE_CPP + "\n" + TUP_CPP, funcs_cpp=funcs + [u[0] for u in uninit])
    em.uninit_expected = [u[1] for u in uninit]
    return m, em, user, funcs
