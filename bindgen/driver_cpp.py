"""Generates C++ drivers for a *post-processed C++ header*: one translation unit per root type
(so that one root that does not instantiate cannot hide the others).  Mock vtables log
(root, trait, slot, container address, argument check, sequence); every member-function
wrapper is called with sentinel arguments; objects are destroyed through their destructors.
The CALL lines have the format of the C driver (driver.py) plus `after_*` counters taken once
the object itself has gone out of scope."""
import re

from emit_cpp import cpp_ty, INST_CPP, CTX_CPP
from driver import fnptr_key

PRE = r"""
#include <cstdio>
struct Rec { int root, trait, slot; const void *cont; int args_ok; int seq; };
static Rec LOG[64]; static int NLOG; static int SEQ;
static int box_drops, arc_clones, arc_drops; static int box_drop_seq, arc_clone_seq, arc_drop_seq_first, arc_drop_seq_last;
static unsigned char PAYLOAD[64], PAYLOAD2[64], CTXPAYLOAD[64];
static void mock_box_drop(void *p) { box_drops++; box_drop_seq = ++SEQ; (void)p; }
static const void *mock_arc_clone(const void *p) { arc_clones++; arc_clone_seq = ++SEQ; return p; }
static void mock_arc_drop(const void *p) { arc_drops++; if (!arc_drop_seq_first) arc_drop_seq_first = ++SEQ; else arc_drop_seq_last = ++SEQ; (void)p; }
static void sent_fn(int32_t a, int32_t b) { (void)a; (void)b; }
static void sent_fn1(int32_t a) { (void)a; }
static void sent_fn0() { }
static void reset() { NLOG = 0; SEQ = 0; box_drops = arc_clones = arc_drops = 0; box_drop_seq = arc_clone_seq = arc_drop_seq_first = arc_drop_seq_last = 0; }
template<typename T> static bool sent_cb_t(void *c, T p) { (void)c; (void)p; return true; }
"""

# C++ type text -> (definition of sentinel maker, expression maker(i), equality(a, b))
def _sc(ty, expr):
    return (lambda i: expr % i, lambda a, b: "(%s) == (%s)" % (a, b))


SENT = {
    "uint8_t": _sc("uint8_t", "(uint8_t)(0x50 + %d)"),
    "uint32_t": _sc("uint32_t", "(uint32_t)(0xC0FFEE00u + %d)"),
    "uint64_t": _sc("uint64_t", "(uint64_t)(0x1122334455667700ull + %d)"),
    "int32_t": _sc("int32_t", "(int32_t)(-12345 - %d)"),
    "uintptr_t": _sc("uintptr_t", "(uintptr_t)(0xABCDEF00 + %d)"),
    "bool": _sc("bool", "(true || %d)"),
    "double": _sc("double", "(double)(2.5 + %d)"),
    "CSliceRef<uint8_t>": (lambda i: "mk_slice(%d)" % i, lambda a, b: "((%s).data == (%s).data && (%s).len == (%s).len)" % (a, b, a, b)),
    "Pair": (lambda i: "mk_pair(%d)" % i, lambda a, b: "((%s).a == (%s).a && (%s).b == (%s).b)" % (a, b, a, b)),
    "const uint8_t *": _sc("", "((const uint8_t *)(uintptr_t)(0x2000 + %d))"),
    "uint64_t *": _sc("", "((uint64_t *)(uintptr_t)(0x3000 + 8 * %d))"),
    "OpaqueCallback<Pair>": (lambda i: "mk_cb<Pair>(0x4000 + %d)" % i, lambda a, b: "((%s).context == (%s).context && (%s).func == (%s).func)" % (a, b, a, b)),
    "KeyValueCallback": (lambda i: "mk_cb<KeyValue>(0x4100 + %d)" % i, lambda a, b: "((%s).context == (%s).context && (%s).func == (%s).func)" % (a, b, a, b)),
    "CIterator<int32_t>": (lambda i: "mk_it(0x4200 + %d)" % i, lambda a, b: "((%s).iter == (%s).iter && (%s).func == (%s).func)" % (a, b, a, b)),
    "CTup2<int32_t, Pair>": (lambda i: "mk_tup(%d)" % i, lambda a, b: "((%s)._0 == (%s)._0 && (%s)._1.a == (%s)._1.a && (%s)._1.b == (%s)._1.b)" % (a, b, a, b, a, b)),
    "FNPTR2": (lambda i: "sent_fn", lambda a, b: "(%s) == (%s)" % (a, b)),
    "FNPTR1": (lambda i: "sent_fn1", lambda a, b: "(%s) == (%s)" % (a, b)),
    "FNPTR0": (lambda i: "sent_fn0", lambda a, b: "(%s) == (%s)" % (a, b)),
}


def norm_ty(t):
    return re.sub(r"\s+\*", " *", t.strip())


def helpers(header_text):
    h = []
    if "struct CSliceRef" in header_text:
        h.append("static CSliceRef<uint8_t> mk_slice(int i) { CSliceRef<uint8_t> s; s.data = (const uint8_t *)(uintptr_t)(0x1000 + i); s.len = 77 + i; return s; }")
    if "struct Pair" in header_text:
        h.append("static Pair mk_pair(int i) { Pair p; p.a = (uint8_t)(0x21 + i); p.b = 0x9900 + i; return p; }")
    if "struct CTup2" in header_text and "struct Pair" in header_text:
        h.append("static CTup2<int32_t, Pair> mk_tup(int i) { CTup2<int32_t, Pair> t; t._0 = -777 - i; t._1.a = (uint8_t)(0x31 + i); t._1.b = 0x7700 + i; return t; }")
    if "struct Callback" in header_text:
        h.append("template<typename T> static Callback<void, T> mk_cb(int i) { Callback<void, T> c; c.context = (void *)(uintptr_t)i; c.func = &sent_cb_t<T>; return c; }")
    if "struct CIterator" in header_text:
        h.append("static int32_t sent_it(void *c, int32_t *o) { (void)c; (void)o; return 1; }\nstatic CIterator<int32_t> mk_it(int i) { CIterator<int32_t> c; c.iter = (void *)(uintptr_t)i; c.func = &sent_it; return c; }")
    return "\n".join(h) + "\n"


def wrapper_name(model, r, tname, mname):
    """the member function name the C++ generator documents: the method name, prefixed with the
    lower-cased trait name when another trait of the same group exports the same name"""
    if r["kind"] == "group":
        for (other, _, _) in r["vtables"]:
            if other != tname and any(m.name == mname for m in model.traits[other].methods):
                return "%s_%s" % (tname.lower(), mname)
    return mname


def root_type_expr(kind, name, inst, ctxexpr):
    if kind == "group":
        return "%s<%s, %s>" % (name, INST_CPP[inst], ctxexpr)
    return "CGlueTraitObj<%s, %sVtbl<CGlueObjContainer<%s, %s, %sRetTmp<%s>>>, %s, %sRetTmp<%s>>" % (INST_CPP[inst], name, INST_CPP[inst], ctxexpr, name, ctxexpr, ctxexpr, name, ctxexpr)


def gen_root_driver(header_name, em, model, header_text, ri, ctx_override=None):
    """ctx_override: C++ type to use as the context instead of the one the aliases name
    (used to drive no-context objects with `void`, the spelling the C++ generator specialises)"""
    r = em.roots[ri]
    L = []
    A = L.append
    A('#include "%s"' % header_name)
    A(PRE)
    A(helpers(header_text))
    ctxexpr = ctx_override if ctx_override is not None else CTX_CPP[r["ctx"]]
    if ctx_override is None:
        obj_t, cont_t = r["struct"], r["container"]
    else:
        obj_t = root_type_expr(r["kind"], r["name"], r["inst"], ctxexpr)
        cont_t = r["container"].replace(CTX_CPP[r["ctx"]], ctxexpr)
    A("typedef %s Cont;" % cont_t)
    A("typedef %s Obj;" % obj_t)
    has_ctx = r["ctx"] == "Arc"
    calls = []
    for ti, (tname, field, vstruct) in enumerate(r["vtables"]):
        t = model.traits[tname]
        names = []
        for si, m in enumerate(t.methods):
            fn = "mock_%d_%d" % (ti, si)
            names.append("&" + fn)
            cparam = {"ref": "const Cont *cont", "mut": "Cont *cont", "own": "Cont cont"}[m.recv]
            ps, checks, callargs = [], [], []
            for ai, (ty, nm) in enumerate(m.args):
                if nm == "":
                    ps.append(ty)
                    an = re.search(r"\(\*(\w+)\)", ty).group(1)
                    key = fnptr_key(re.search(r"\)\((.*)\)\s*$", ty).group(1))
                else:
                    cty = cpp_ty(ty)
                    ps.append("%s%s%s" % (cty, "" if cty.endswith("*") else " ", nm))
                    an = nm
                    key = norm_ty(cty)
                checks.append(SENT[key][1](an, SENT[key][0](ai)))
                callargs.append(SENT[key][0](ai))
            if m.ret == "CONT":
                rty = "Cont"
            elif isinstance(m.ret, tuple):
                rty = root_type_expr(m.ret[0].replace("ptr", ""), m.ret[1], m.ret[2], ctxexpr) + (" *" if m.ret[0].endswith("ptr") else "")
            else:
                rty = cpp_ty(m.ret)
            A("static %s %s(%s%s) {" % (rty, fn, cparam, "".join(", " + p for p in ps)))
            A("    Rec *r = &LOG[NLOG++ %% 64]; r->root = %d; r->trait = %d; r->slot = %d; r->seq = ++SEQ;" % (ri, ti, si))
            if m.recv == "own":
                inst_ok = {"Box": "cont.instance.instance == (void *)PAYLOAD && cont.instance.drop_fn == mock_box_drop", "Mut": "cont.instance == (void *)PAYLOAD", "Ref": "cont.instance == (const void *)PAYLOAD"}[r["inst"]]
                ctx_ok = " && cont.context.instance == (const void *)CTXPAYLOAD" if has_ctx else ""
                A("    r->cont = (%s%s) ? (const void *)PAYLOAD : nullptr;" % (inst_ok, ctx_ok))
                if r["inst"] == "Box":
                    A("    cont.instance.drop_fn(cont.instance.instance);")
                if has_ctx:
                    A("    cont.context.drop_fn(cont.context.instance);")
            else:
                A("    r->cont = (const void *)cont;")
            A("    r->args_ok = %s;" % (" && ".join(checks) if checks else "1"))
            if m.ret == "CONT":
                A("    Cont out = Cont(); fill_cont(out, PAYLOAD2); return out;")
            elif isinstance(m.ret, tuple):
                if m.ret[0].endswith("ptr"):
                    A("    return (%s)(uintptr_t)0x7700;" % rty)
                else:
                    mark = {"Box": "out.container.instance.instance = PAYLOAD2; out.container.instance.drop_fn = nullptr;", "Mut": "out.container.instance = PAYLOAD2;", "Ref": "out.container.instance = PAYLOAD2;"}[m.ret[2]]
                    A("    %s out; %s return out;" % (rty, mark))
            elif m.ret != "void":
                A("    return %s;" % SENT[norm_ty(rty)][0](9))
            A("}")
            calls.append((ti, si, tname, m, rty, callargs))
        A("static const %s<Cont> VT_%d = { %s };" % (vstruct, ti, ", ".join(names)))
    # container / object builders (defined after the mocks use fill_cont: forward declare)
    fill = ["static void fill_cont(Cont &c, unsigned char *payload) {"]
    if r["inst"] == "Box":
        fill.append("    c.instance.instance = payload; c.instance.drop_fn = mock_box_drop;")
    else:
        fill.append("    c.instance = payload;")
    if has_ctx:
        fill.append("    c.context.instance = CTXPAYLOAD; c.context.clone_fn = mock_arc_clone; c.context.drop_fn = mock_arc_drop;")
    fill.append("}")
    # insert fill_cont before the first mock
    idx = next(i for i, l in enumerate(L) if l.startswith("static ") and "mock_" in l and l.endswith("{"))
    L[idx:idx] = fill
    A("static void build(Obj &o) {")
    for ti, (tname, field, vstruct) in enumerate(r["vtables"]):
        A("    o.%s = &VT_%d;" % (field, ti))
    A("    fill_cont(o.container, PAYLOAD);")
    A("}")
    A("#define SNAP int s_box = box_drops, s_cl = arc_clones, s_dr = arc_drops, s_cs = arc_clone_seq, s_df = arc_drop_seq_first, s_dl = arc_drop_seq_last, s_n = NLOG, s_bs = box_drop_seq;")
    A("int main() {")
    A('    printf("SIZEOF root=%d obj=%%zu cont=%%zu\\n", sizeof(Obj), sizeof(Cont));' % ri)
    ncalls = 0
    for (ti, si, tname, m, rty, callargs) in calls:
        if m.ret == "CONT" and r["inst"] != "Box":
            continue
        w = wrapper_name(model, r, tname, m.name)
        ncalls += 1
        A("    { /* %s::%s */" % (tname, m.name))
        A("        int ret_ok = 1; const void *contaddr = nullptr; Rec first = Rec();")
        A("        int s_box_, s_cl_, s_dr_, s_cs_, s_df_, s_dl_, s_n_, s_bs_;")
        A("        {")
        A("            Obj obj; build(obj); reset(); contaddr = (const void *)&obj.container;")
        target = "std::move(obj)" if m.recv == "own" else "obj"
        call = "%s.%s(%s)" % (target, w, ", ".join(callargs))
        if rty == "void":
            A("            %s;" % call)
            A("            SNAP")
        elif m.ret == "CONT":
            A("            {")
            A("                Obj rv = %s;" % call)
            A("                SNAP")
            inst = "rv.container.instance.instance" if r["inst"] == "Box" else "rv.container.instance"
            vt_ok = " && ".join("rv.%s == obj.%s" % (f, f) for _, f, _ in r["vtables"])
            A("                ret_ok = (%s == (void *)PAYLOAD2) && %s;" % (inst, vt_ok))
            A("                s_box_ = s_box; s_cl_ = s_cl; s_dr_ = s_dr; s_cs_ = s_cs; s_df_ = s_df; s_dl_ = s_dl; s_n_ = s_n; s_bs_ = s_bs;")
            A("            }")
        elif isinstance(m.ret, tuple) and m.ret[0].endswith("ptr"):
            A("            %s rv = %s;" % (rty, call))
            A("            SNAP")
            A("            ret_ok = rv == (%s)(uintptr_t)0x7700;" % rty)
        elif isinstance(m.ret, tuple):
            A("            {")
            A("                %s rv = %s;" % (rty, call))
            A("                SNAP")
            inst = "rv.container.instance.instance" if m.ret[2] == "Box" else "rv.container.instance"
            A("                ret_ok = (%s == (void *)PAYLOAD2);" % inst)
            A("                s_box_ = s_box; s_cl_ = s_cl; s_dr_ = s_dr; s_cs_ = s_cs; s_df_ = s_df; s_dl_ = s_dl; s_n_ = s_n; s_bs_ = s_bs;")
            A("            }")
        else:
            A("            %s rv = %s;" % (rty, call))
            A("            SNAP")
            A("            ret_ok = %s;" % SENT[norm_ty(rty)][1]("rv", SENT[norm_ty(rty)][0](9)))
        if not (m.ret == "CONT" or (isinstance(m.ret, tuple) and not m.ret[0].endswith("ptr"))):
            A("            s_box_ = s_box; s_cl_ = s_cl; s_dr_ = s_dr; s_cs_ = s_cs; s_df_ = s_df; s_dl_ = s_dl; s_n_ = s_n; s_bs_ = s_bs;")
        A("            if (NLOG > 0) first = LOG[0];")
        A("        }")
        A('        printf("CALL w=%s root=%d known_params=1 nlog=%%d", s_n_);' % (w, ri))
        A('        if (s_n_ > 0) printf(" [root=%d trait=%d slot=%d cont_ok=%d args_ok=%d seq=%d]", first.root, first.trait, first.slot, first.cont == contaddr || first.cont == (const void *)PAYLOAD, first.args_ok, first.seq);')
        A('        printf(" ret_ok=%d box_drops=%d arc_clones=%d arc_drops=%d clone_seq=%d drop_first=%d drop_last=%d after_box=%d after_clones=%d after_arc=%d box_seq=%d\\n", ret_ok, s_box_, s_cl_, s_dr_, s_cs_, s_df_, s_dl_, box_drops, arc_clones, arc_drops, s_bs_);')
        A("    }")
    # destructor = the C++ drop helper
    ncalls += 1
    A("    {")
    A("        { Obj obj; build(obj); reset(); }")
    A('        printf("CALL w=drop root=%d known_params=1 nlog=%%d ret_ok=1 box_drops=%%d arc_clones=%%d arc_drops=%%d clone_seq=%%d drop_first=%%d drop_last=%%d after_box=%%d after_clones=%%d after_arc=%%d box_seq=%%d\\n", NLOG, box_drops, arc_clones, arc_drops, arc_clone_seq, arc_drop_seq_first, arc_drop_seq_last, box_drops, arc_clones, arc_drops, box_drop_seq);' % ri)
    A("    }")
    A('    printf("DONE calls=%d\\n");' % ncalls)
    A("    return 0;\n}")
    return "\n".join(L) + "\n", ncalls
