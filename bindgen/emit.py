"""Emulator of cbindgen's *output shape* for CGlue APIs (C mode), driven by an API model.
cbindgen is not installed in the sandbox; this module is part of the trusted base of C17/C18
and is calibrated against examples/pregen-headers/bindings.h (see calibrate() in c17.py):
mangling (`<`=1, `,`=2, `>`=3, `*mut`=4, `*const`=5 underscores, trailing ones trimmed), the doc
comments the post-processor keys on, zero-sized RetTmp typedefs, typedef chains, struct order."""
import random


# ------------------------------------------------------------------------------------------ types
class Ty:
    def __init__(self, name, args=()):
        self.name, self.args = name, list(args)


def G(name, *args):
    return Ty(name, args)


def PtrMut(t):
    return Ty("*mut", [t])


def PtrConst(t):
    return Ty("*const", [t])


def mangle_raw(t):
    if isinstance(t, str):
        return t
    if t.name == "*mut":
        return "____" + mangle_raw(t.args[0])
    if t.name == "*const":
        return "_____" + mangle_raw(t.args[0])
    if not t.args:
        return t.name
    return t.name + "_" + "__".join(mangle_raw(a) for a in t.args) + "___"


def mangle(t):
    return mangle_raw(t).rstrip("_")


C_VOID = "c_void"
INST = {"Box": G("CBox", C_VOID), "Mut": PtrMut(C_VOID), "Ref": PtrConst(C_VOID)}
# "Generic": the context of a wrapped return type inside a vtable.  The generated Rust spells it `CGlueC::Context`; cbindgen resolves a path by its
# last segment, cannot substitute it and mangles it as the (undeclared) name `Context` - the `*_Context` structures the post-processor instantiates
CTX = {"Arc": G("CArc", C_VOID), "": "NoContext", "Generic": "Context"}

VTBL_DOC = """/**
 * CGlue vtable for trait %s.
 *
 * This virtual function table contains ABI-safe interface for the given trait.
 */
"""
OBJ_DOC = """/**
 * Simple CGlue trait object.
 *
 * This is the simplest form of CGlue object, represented by a container and vtable for a single
 * trait.
 *
 * Container merely is a this pointer with some optional temporary return reference context.
 */
"""
CONT_DOC = """/**
 * Simple CGlue trait object container.
 *
 * This is the simplest form of container, represented by an instance, clone context, and
 * temporary return context.
 *
 * `instance` value usually is either a reference, or a mutable reference, or a `CBox`, which
 * contains static reference to the instance, and a dedicated drop function for freeing resources.
 *
 * `context` is either `PhantomData` representing nothing, or typically a `CArc` that can be
 * cloned at will, reference counting some resource, like a `Library` for automatic unloading.
 *
 * `ret_tmp` is usually `PhantomData` representing nothing, unless the trait has functions that
 * return references to associated types, in which case space is reserved for wrapping structures.
 */
"""
ZST_DOC = """
/**
 * Type definition for temporary return value wrapping storage.
 *
 * The trait does not use return wrapping, thus is a typedef to `PhantomData`.
 *
 * Note that `cbindgen` will generate wrong structures for this type. It is important
 * to go inside the generated headers and fix it - all RetTmp structures without a
 * body should be completely deleted, both as types, and as fields in the
 * groups/objects. If C++11 templates are generated, it is important to define a
 * custom type for CGlueTraitObj that does not have `ret_tmp` defined, and change all
 * type aliases of this trait to use that particular structure.
 */
"""
RETTMP_DOC = """/**
 * Temporary return value structure, for returning wrapped references.
 *
 * This structure contains data for each vtable function that returns a reference to
 * an associated type. Note that these temporary values should not be accessed
 * directly. Use the trait functions.
 */
"""
BOX_DOC = """/**
 * FFI-safe box
 *
 * This box has a static self reference, alongside a custom drop function.
 *
 * The drop function can be called from anywhere, it will free on correct allocator internally.
 */
"""
ARC_DOC = """/**
 * FFI-Safe Arc
 *
 * This is an FFI-Safe equivalent of Arc<T> and Option<Arc<T>>.
 */
"""
GROUP_DOC = """/**
 * Trait group potentially implementing `%s` traits.
 *
 * Optional traits are not implemented here, however. There are numerous conversion
 * functions available for safely retrieving a concrete collection of traits.
 *
 * `check_impl_` functions allow to check if the object implements the wanted traits.
 *
 * `into_impl_` functions consume the object and produce a new final structure that
 * keeps only the required information.
 *
 * `cast_impl_` functions merely check and transform the object into a type that can
 *be transformed back into `%s` without losing data.
 *
 * `as_ref_`, and `as_mut_` functions obtain references to safe objects, but do not
 * perform any memory transformations either. They are the safest to use, because
 * there is no risk of accidentally consuming the whole object.
 */
"""


# ------------------------------------------------------------------------------------------ model
class Method:
    """args: list of (c type text, name); ret: c type text, or "CONT" (returns the container by
    value, like Clone::clone), or ("group"|"obj", root key) for wrapped returns (by value),
    or ("groupptr", root key) for borrowed wrapped returns"""

    def __init__(self, name, recv, args=(), ret="void"):
        self.name, self.recv, self.args, self.ret = name, recv, list(args), ret


class Trait:
    def __init__(self, name, methods, rettmp_fields=()):
        self.name, self.methods, self.rettmp_fields = name, methods, list(rettmp_fields)


class Model:
    def __init__(self, traits, groups, roots, user_items=(), functions=()):
        self.traits = {t.name: t for t in traits}
        self.groups = groups              # name -> (mandatory [names], optional [names])
        self.roots = roots                # list of ("obj"|"group", name, inst, ctx)
        self.user_items = list(user_items)   # (position index, text) unrelated declarations
        self.functions = list(functions)     # extern "C" declarations (text)


class Emitted:
    """what the emulator produced + the facts the oracle needs about every root type"""

    def __init__(self):
        self.text = ""
        self.generic_structs = []
        self.roots = []   # dict(kind, name, inst, ctx, struct, container, vtables=[(trait, field, vtbl struct)], methods)


def ctx_c(ctx):
    return {"Arc": "CArc_c_void", "": "NoContext", "Generic": "Context"}[ctx]


def emit(model, seed=0, generic=None):
    """generic: wrapped return types in vtables are emitted the way cbindgen sees them - as context-generic `*_Context` instantiations; the
    per-context structures are then NOT in the input (unless exported elsewhere) and are only registered in em.roots for the oracle"""
    if generic is None:
        generic = getattr(model, "generic", True)
    rng = random.Random(seed)
    out = []
    em = Emitted()
    em.generic = generic
    done = set()
    silent = [0]
    out.append("#include <stdarg.h>\n#include <stdbool.h>\n#include <stdint.h>\n#include <stdlib.h>\n")
    pending_user = sorted(model.user_items, key=lambda x: x[0])
    nblocks = [0]

    def block(text):
        if silent[0]:
            return
        # unrelated user declarations are interleaved at their positions
        while pending_user and pending_user[0][0] <= nblocks[0]:
            out.append(pending_user.pop(0)[1] + "\n")
        out.append(text)
        nblocks[0] += 1

    def once(key, text):
        if silent[0]:
            return
        if key not in done:
            done.add(key)
            block(text)

    def basics(inst, ctx):
        if inst == "Box":
            once("CBox", BOX_DOC + "typedef struct CBox_c_void {\n    void *instance;\n    void (*drop_fn)(void*);\n} CBox_c_void;\n")
        if ctx == "Generic":
            pass
        elif ctx == "Arc":
            once("CArc", ARC_DOC + "typedef struct CArc_c_void {\n    const void *instance;\n    const void *(*clone_fn)(const void*);\n    void (*drop_fn)(const void*);\n} CArc_c_void;\n")
        else:
            once("NoContext", "typedef struct NoContext NoContext;\n")

    def inst_field(inst):
        return {"Box": "struct CBox_c_void instance;", "Mut": "void *instance;", "Ref": "const void *instance;"}[inst]

    def ctx_field(ctx):
        return {"Arc": "struct CArc_c_void context;", "": "struct NoContext context;", "Generic": "Context context;"}[ctx]

    def rettmp(trait, ctx):
        """emit RetTmp for (trait, ctx); returns its struct name"""
        t = model.traits[trait]
        name = "%sRetTmp_%s" % (trait, ctx_c(ctx))
        if t.rettmp_fields:
            fields = ""
            for fname, (kind, rname, rinst) in t.rettmp_fields:
                r = root_struct(kind, rname, rinst, ctx)
                fields += "    struct %s %s;\n" % (r, fname)
            once(name, RETTMP_DOC + "typedef struct %s {\n%s} %s;\n" % (name, fields, name))
        else:
            once(name, ZST_DOC + "typedef struct %s %s;\n" % (name, name))
        return name

    def ret_text(m, cont_struct, ctx):
        if m.ret == "CONT":
            return "struct %s " % cont_struct
        if isinstance(m.ret, tuple):
            kind, rname, rinst = m.ret[0].replace("ptr", ""), m.ret[1], m.ret[2]
            r = wrapped_struct(kind, rname, rinst, ctx)
            if (generic or ctx == "Generic") and kind == "obj":
                # the generated Rust names the `<Trait>Base` alias: cbindgen instantiates the alias and uses its (typedef) name
                return "%s %s" % (obj_base_alias(rname, rinst, "Generic"), "*" if m.ret[0].endswith("ptr") else "")
            return "struct %s %s" % (r, "*" if m.ret[0].endswith("ptr") else "")
        return m.ret + ("" if m.ret.endswith("*") else " ")

    def vtable(trait, cont_struct, ctx):
        t = model.traits[trait]
        vname = "%sVtbl_%s" % (trait, cont_struct)
        if vname in done:
            return vname
        lines = []
        for m in t.methods:
            c = {"ref": "const struct %s *cont" % cont_struct, "mut": "struct %s *cont" % cont_struct, "own": "struct %s cont" % cont_struct}[m.recv]
            args = "".join(", %s%s%s" % (ty, "" if ty.endswith("*") else " ", nm) for ty, nm in m.args)
            lines.append("    %s(*%s)(%s%s);" % (ret_text(m, cont_struct, ctx), m.name, c, args))
        # wrapped return types must exist before the vtable that mentions them
        once(vname, (VTBL_DOC % trait) + "typedef struct %s {\n%s\n} %s;\n" % (vname, "\n".join(lines), vname))
        return vname

    def obj_base_alias(name, inst, ctx):
        return "%sBase_%s" % (name, mangle_raw(INST[inst]).rstrip("_") + "_____" + ctx_c(ctx))

    def wrapped_struct(kind, name, inst, ctx):
        """the type a vtable entry of an object with context `ctx` returns: text name"""
        if generic or ctx == "Generic":
            if ctx != "Generic":
                silent[0] += 1
                try:
                    root_struct(kind, name, inst, ctx)     # what the processed header must contain for this context: registered, not emitted
                finally:
                    silent[0] -= 1
            return root_struct(kind, name, inst, "Generic")
        return root_struct(kind, name, inst, ctx)

    def register(entry):
        if entry["ctx"] == "Generic":
            em.generic_structs.append(entry)
            return
        for r in em.roots:
            if r["key"] == entry["key"]:
                r["emitted"] = r["emitted"] or entry["emitted"]
                return
        em.roots.append(entry)

    def root_struct(kind, name, inst, ctx):
        key = (kind, name, inst, ctx)
        for r in em.roots + em.generic_structs:
            if r["key"] == key and (r["emitted"] or silent[0]):
                return r["struct"]
        basics(inst, ctx)
        ctxt = CTX[ctx]
        if kind == "group":
            mand, opt = model.groups[name]
            traits = sorted(mand) + sorted(opt)
            cont = mangle(G(name + "Container", INST[inst], ctxt))
            rts = [(t, rettmp(t, ctx)) for t in sorted(mand) + sorted(opt)]
            fields = "    %s\n    %s\n" % (inst_field(inst), ctx_field(ctx)) + "".join("    struct %s ret_tmp_%s;\n" % (rn, t.lower()) for t, rn in rts)
            once(cont, "typedef struct %s {\n%s} %s;\n" % (cont, fields, cont))
            vt = []
            for t in traits:
                # wrapped returns first
                for m in model.traits[t].methods:
                    if isinstance(m.ret, tuple):
                        wrapped_struct(m.ret[0].replace("ptr", ""), m.ret[1], m.ret[2], ctx)
                vt.append((t, "vtbl_%s" % t.lower(), vtable(t, cont, ctx)))
            sname = mangle(G(name, INST[inst], ctxt))
            body = "".join("    const struct %s *%s;\n" % (v, f) for _, f, v in vt) + "    struct %s container;\n" % cont
            doc = GROUP_DOC % (" + ".join("%s < >" % t for t in traits), name)
            once(sname, doc + "typedef struct %s {\n%s} %s;\n" % (sname, body, sname))
            register(dict(key=key, kind=kind, name=name, inst=inst, ctx=ctx, struct=sname, container=cont, vtables=vt, emitted=not silent[0]))
            if ctx == "Generic":
                return sname
            # typedef chain down to the opaque alias
            alias = name + ("Arc" if ctx == "Arc" else "") + inst
            once("alias" + sname, "typedef struct %s %sBase%s_%s;\n" % (sname, name, "Ctx" + inst if ctx else inst, "c_void__" + ctx_c(ctx) if ctx else "c_void") +
                 "typedef struct %s %s;\n" % (sname, alias))
            return sname
        else:
            for m in model.traits[name].methods:
                if isinstance(m.ret, tuple) and not m.ret[0].endswith("ptr"):
                    wrapped_struct(m.ret[0], m.ret[1], m.ret[2], ctx)
            rt = rettmp(name, ctx)
            cont = mangle(G("CGlueObjContainer", INST[inst], ctxt, G(name + "RetTmp", ctxt)))
            fields = "    %s\n    %s\n    struct %s ret_tmp;\n" % (inst_field(inst), ctx_field(ctx), rt)
            once(cont, CONT_DOC + "typedef struct %s {\n%s} %s;\n" % (cont, fields, cont))
            for m in model.traits[name].methods:
                if isinstance(m.ret, tuple):
                    wrapped_struct(m.ret[0].replace("ptr", ""), m.ret[1], m.ret[2], ctx)
            v = vtable(name, cont, ctx)
            sname = mangle(G("CGlueTraitObj", INST[inst], G(name + "Vtbl", G("CGlueObjContainer", INST[inst], ctxt, G(name + "RetTmp", ctxt))), ctxt, G(name + "RetTmp", ctxt)))
            once(sname, OBJ_DOC + "typedef struct %s {\n    const struct %s *vtbl;\n    struct %s container;\n} %s;\n" % (sname, v, cont, sname))
            register(dict(key=key, kind=kind, name=name, inst=inst, ctx=ctx, struct=sname, container=cont, vtables=[(name, "vtbl", v)], emitted=not silent[0]))
            if ctx == "Generic":
                once("alias" + sname, "/**\n * Base CGlue trait object for trait %s.\n */\ntypedef struct %s %s;\n" % (name, sname, obj_base_alias(name, inst, ctx)))
                return sname
            base = "%sBase_%s" % (name, mangle_raw(INST[inst]).rstrip("_") + "_____" + ctx_c(ctx))
            alias = name + ("Arc" if ctx == "Arc" else "") + inst
            once("alias" + sname, "/**\n * Base CGlue trait object for trait %s.\n */\ntypedef struct %s %s;\n" % (name, sname, base) +
                 "/**\n * Opaque %s CGlue trait object for trait %s.\n */\ntypedef %s %s;\n" % (inst, name, base, alias))
            return sname

    for kind, name, inst, ctx in model.roots:
        root_struct(kind, name, inst, ctx)
    while pending_user:
        out.append(pending_user.pop(0)[1] + "\n")
    out.append("#ifdef __cplusplus\nextern \"C\" {\n#endif // __cplusplus\n")
    for f in model.functions:
        out.append(f + "\n")
    out.append("#ifdef __cplusplus\n} // extern \"C\"\n#endif // __cplusplus\n")
    em.text = "\n".join(out)
    return em


# --------------------------------------------------------------------------------- model generators
SCALARS = [("uint8_t", "0x5a"), ("uint32_t", "0xC0FFEE01u"), ("uint64_t", "0x1122334455667788ull"), ("int32_t", "-12345"), ("uintptr_t", "(uintptr_t)0xABCDEF12"), ("bool", "true"), ("double", "2.5")]
STRUCT_ARGS = [("struct CSliceRef_u8", "slice"), ("struct Pair", "pair")]
PTR_ARGS = [("const uint8_t *", "cptr"), ("uint64_t *", "mptr")]
FNPTR_ARG = ("void (*)(int32_t, int32_t)", "fnptr")


def plugin_api_model():
    """the API of examples/plugin-api, used for calibration against examples/pregen-headers"""
    traits = [
        Trait("MainFeature", [Method("print_self", "ref")]),
        Trait("Clone", [Method("clone", "ref", ret="CONT")]),
        Trait("KeyValueDumper", [Method("dump_key_values", "ref", [("KeyValueCallback", "callback")]), Method("print_ints", "ref", [("struct CIterator_i32", "iter")])]),
        Trait("KeyValueStore", [Method("write_key_value", "mut", [("struct CSliceRef_u8", "name"), ("uintptr_t", "val")]), Method("get_key_value", "ref", [("struct CSliceRef_u8", "name")], "uintptr_t")]),
        Trait("PluginInner", [Method("borrow_features", "mut", ret=("group", "FeaturesGroup", "Box")), Method("into_features", "own", ret=("group", "FeaturesGroup", "Box")),
                              Method("mut_features", "mut", ret=("groupptr", "FeaturesGroup", "Mut"))], rettmp_fields=[("mut_features", ("group", "FeaturesGroup", "Mut"))]),
    ]
    groups = {"FeaturesGroup": (["MainFeature"], ["KeyValueStore", "KeyValueDumper", "Clone"])}
    # TypeLayout is a foreign (abi_stable) type cbindgen cannot see: it is only *used*; the tool adds its declaration
    user = [(0, "typedef const char *ReprCStr;\n"),
            (2, "typedef struct CSliceRef_u8 {\n    const uint8_t *data;\n    uintptr_t len;\n} CSliceRef_u8;\n\ntypedef struct KeyValue {\n    struct CSliceRef_u8 _0;\n    uintptr_t _1;\n} KeyValue;\n\n"
                "typedef struct Callback_c_void__KeyValue {\n    void *context;\n    bool (*func)(void*, struct KeyValue);\n} Callback_c_void__KeyValue;\n\ntypedef struct Callback_c_void__KeyValue OpaqueCallback_KeyValue;\n\n"
                "typedef OpaqueCallback_KeyValue KeyValueCallback;\n\ntypedef struct CIterator_i32 {\n    void *iter;\n    int32_t (*func)(void*, int32_t *out);\n} CIterator_i32;\n")]
    roots = [("obj", "PluginInner", "Box", "Arc")]
    return Model(traits, groups, roots, user, ["extern const TypeLayout *ROOT_LAYOUT;", "int32_t load_plugin(ReprCStr name, PluginInnerArcBox *ok_out);"])


PRELUDE_TYPES = ("typedef struct CSliceRef_u8 {\n    const uint8_t *data;\n    uintptr_t len;\n} CSliceRef_u8;\n\ntypedef struct Pair {\n    uint8_t a;\n    uint64_t b;\n} Pair;\n\n"
                 "typedef struct Callback_c_void__Pair {\n    void *context;\n    bool (*func)(void*, struct Pair);\n} Callback_c_void__Pair;\n\ntypedef struct Callback_c_void__Pair OpaqueCallback_Pair;\n")

USER_DECLS = [
    "typedef struct UserThing {\n    int32_t x;\n    const char *name;\n} UserThing;\n",
    "/**\n * A user struct whose name merely looks like a vtable.\n */\ntypedef struct UserTableVtbl {\n    int32_t (*run)(int32_t x);\n    void *ret_tmp;\n} UserTableVtbl;\n",
    "typedef struct Settings_Context {\n    uint32_t flags;\n    uint32_t context;\n} Settings_Context;\n",
    "#define USER_LIMIT 42\n",
    "typedef enum UserMode {\n    UserMode_A = 0,\n    UserMode_B = 1,\n} UserMode;\n",
    "typedef int32_t (*user_handler)(struct UserThing *thing, int32_t code);\n",
    "typedef struct HolderRetTmp_like {\n    uint64_t ret_tmp_value;\n    uint8_t no_context_flag;\n} HolderRetTmp_like;\n",
]
USER_FUNCS = ["int32_t user_thing_drop(struct UserThing *thing);", "void user_clone(const struct UserThing *from, struct UserThing *to);", "uint32_t settings_context_flags(const struct Settings_Context *s);"]


def random_model(seed, fnptr=False, wrapped=False, layout=False, plain=False, wrapped_ctx=None):
    """layout: an exported item mentions the foreign `const TypeLayout *` (what layout_checks exports);
    plain: a header without any CGlue object or group (only user declarations and functions)"""
    m = _random_model(seed, fnptr)
    # one header in four is written the way a hand-monomorphised (or older) cbindgen output looks: wrapped return types already carry the owner's context
    m.generic = (seed // 3) % 4 != 3
    if wrapped:
        add_wrapped(m, random.Random(seed ^ 0x77a9), wrapped_ctx)
    if plain:
        m.roots = []
    if layout:
        m.functions.append(random.Random(seed ^ 0x1a70).choice(["extern const TypeLayout *ROOT_LAYOUT;", "const TypeLayout *get_root_layout(void);"]))
    return m


def add_wrapped(m, rng, force_ctx=None):
    """a `Factory` trait whose entries return wrapped objects/groups (by value, consuming, and
    borrowed through a RetTmp slot), exported as a single-trait object and inside a group"""
    def methods_of(names):
        return [x for n in names for x in m.traits[n].methods]
    ctx = rng.choice(["Arc", "Arc", ""])
    if force_ctx is not None:
        ctx = force_ctx
    # a group usable by-mut: no consuming entries, no Clone
    gname = None
    for g, (mand, opt) in m.groups.items():
        if "Clone" not in opt and not any(x.recv == "own" for x in methods_of(mand + opt)):
            gname = g
    if gname is None:
        base = [n for n in m.traits if n != "Clone" and not any(x.recv == "own" for x in m.traits[n].methods)]
        if not base:
            m.traits["Plain"] = Trait("Plain", [Method("plain_get", "ref", [], "uint64_t"), Method("plain_set", "mut", [("uint64_t", "a0")])])
            base = ["Plain"]
        gname = "Inner"
        m.groups[gname] = ([base[0]], base[1:2])
    tobj = [n for n in m.traits if n != "Clone"][0]
    ms = [Method("make_group", "mut", [("uint32_t", "a0")], ("group", gname, "Box")),
          Method("into_group", "own", [], ("group", gname, "Box")),
          Method("mut_group", "mut", [], ("groupptr", gname, "Mut")),
          Method("make_obj", "ref", [("uint8_t", "a0")], ("obj", tobj, "Box"))]
    rng.shuffle(ms)
    # now and then the name of the return-wrapping trait ends in the name of a plain trait of the same group (KeyStore / Store)
    plain = [n for n in m.traits if n not in ("Clone",) and not m.traits[n].rettmp_fields]
    sibling = rng.choice(plain) if plain and rng.random() < 0.5 else None
    fname = ("Key" + sibling) if sibling else "Factory"
    m.traits[fname] = Trait(fname, ms, rettmp_fields=[("mut_group", ("group", gname, "Mut"))])
    m.roots.append(("obj", fname, "Box", ctx))
    if rng.random() < 0.7 or sibling:
        opt = (["Clone"] if rng.random() < 0.5 else []) + ([sibling] if sibling else [])
        m.groups["Outer"] = ([fname], opt)
        m.roots.append(("group", "Outer", "Box", ctx))


def _random_model(seed, fnptr=False):
    rng = random.Random(seed)
    ntraits = rng.randint(1, 4)
    names = rng.sample(["Alpha", "Beta", "Gamma", "Delta", "Omega", "Store", "Reader"], ntraits)
    traits = []
    shared = rng.choice(["get", "run", "name"])   # the same method name in two traits
    for ti, tn in enumerate(names):
        ms = []
        used = set()
        for mi in range(rng.randint(1, 4)):
            mn = shared if (mi == 0 and ti < 2 and ntraits > 1 and rng.random() < 0.6) else "%s_m%d" % (tn.lower(), mi)
            if mn in used:
                continue
            used.add(mn)
            recv = rng.choice(["ref", "ref", "mut", "mut", "own"])
            args = []
            for ai in range(rng.randint(0, 4)):
                pool = SCALARS + STRUCT_ARGS + PTR_ARGS + [("OpaqueCallback_Pair", "cb")] + ([FNPTR_ARG] * 4 if fnptr else [])
                ty = rng.choice(pool)[0]
                if ty.startswith("void (*)"):
                    # function-pointer argument: name inside the declarator; two, one or no parameters of its own
                    args.append(("void (*a%d)(%s)" % (ai, rng.choice(["int32_t, int32_t", "int32_t, int32_t", "int32_t", "void"])), ""))
                else:
                    args.append((ty, "a%d" % ai))
            ret = rng.choice(["void", "uint64_t", "uint8_t", "int32_t", "struct Pair", "bool", "const uint8_t *", "uintptr_t"])
            ms.append(Method(mn, recv, args, ret))
        traits.append(Trait(tn, ms))
    traits.append(Trait("Clone", [Method("clone", "ref", ret="CONT")]))
    groups = {}
    roots = []
    ngroups = rng.randint(0, 2)
    for gi in range(ngroups):
        gname = ["GroupOne", "Bundle"][gi]
        mand = [rng.choice(names)]
        opt = [n for n in names if n not in mand and rng.random() < 0.7]
        if rng.random() < 0.5:
            opt.append("Clone")
        groups[gname] = (mand, opt)
        for inst in rng.sample(["Box", "Mut", "Ref"], rng.randint(1, 2)):
            cons = any(m.recv == "own" for t in mand + opt for m in [mm for mm in [x for tt in traits if tt.name == t for x in tt.methods]])
            if inst != "Box" and (cons or "Clone" in opt):
                continue
            if inst == "Ref" and any(m.recv == "mut" for tt in traits if tt.name in mand + opt for m in tt.methods):
                continue
            roots.append(("group", gname, inst, rng.choice(["Arc", ""])))
    for tn in names:
        t = [x for x in traits if x.name == tn][0]
        for inst in rng.sample(["Box", "Mut", "Ref"], rng.randint(1, 2)):
            if inst != "Box" and any(m.recv == "own" for m in t.methods):
                continue
            if inst == "Ref" and any(m.recv == "mut" for m in t.methods):
                continue
            if rng.random() < 0.6 or not roots:
                ctx = rng.choice(["Arc", ""])
                roots.append(("obj", tn, inst, ctx))
                if rng.random() < 0.3:
                    # the same object type exported with and without a context
                    roots.append(("obj", tn, inst, "" if ctx else "Arc"))
    for (kind, gname, inst, ctx) in list(roots):
        if kind == "group" and rng.random() < 0.4:
            roots.append((kind, gname, inst, "" if ctx else "Arc"))
    if not roots:
        roots.append(("obj", names[0], "Box", "Arc"))
    user = [(0, PRELUDE_TYPES)]
    for i, u in enumerate(rng.sample(USER_DECLS, rng.randint(2, len(USER_DECLS)))):
        user.append((rng.randint(0, 12), u))
    return Model(traits, groups, roots, user, rng.sample(USER_FUNCS, rng.randint(1, 3)))


# ------------------------------------------------------------------------------------------ size model
def rust_sizes(model, kind, name, inst, ctx):
    """(size of the object, size of its container) as the Rust definitions lay them out on a 64-bit
    target: #[repr(C)] structs of pointers, {instance, drop_fn} boxes, {instance, clone_fn, drop_fn}
    arcs, a zero-sized NoContext, zero-sized RetTmp for traits without borrowed wrapped returns and
    one MaybeUninit<object> per such return otherwise.  Everything is 8-aligned."""
    isz = {"Box": 16, "Mut": 8, "Ref": 8}[inst]
    csz = 24 if ctx == "Arc" else 0

    def rettmp(trait):
        return sum(rust_sizes(model, k, n, i, ctx)[0] for _, (k, n, i) in model.traits[trait].rettmp_fields)
    if kind == "group":
        mand, opt = model.groups[name]
        traits = sorted(mand) + sorted(opt)
        cont = isz + csz + sum(rettmp(t) for t in traits)
        return 8 * len(traits) + cont, cont
    cont = isz + csz + rettmp(name)
    return 8 + cont, cont
