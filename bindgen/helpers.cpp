#include "out.hpp"
#include <vector>
#include <string>
#include <cstdio>
#include <climits>
static int viol = 0, cases = 0;
#define CASE(name, cond, ...) do { cases++; if (!(cond)) { viol++; printf("HELPER name=%s ok=0 detail=", name); printf(__VA_ARGS__); printf("\n"); } } while (0)

struct Src { int next, n, end_code, calls_after_end; };
static int32_t src_next(void *p, int32_t *out) { Src *s = (Src *)p; if (s->next < s->n) { *out = 1000 + 7 * s->next; s->next++; return 0; } s->calls_after_end++; return s->end_code; }

int main() {
    const int codes[] = {1, 2, -1, 1000, INT_MIN, 256};
    for (int n = 0; n <= 6; n++) for (int code : codes) {
        Src s = {0, n, code, 0};
        CIterator<int32_t> it; it.iter = &s; it.func = &src_next;
        std::vector<int32_t> got;
        int guard = 0;
        for (int32_t v : it) { got.push_back(v); if (++guard > 100) break; }
        bool ok = (int)got.size() == n;
        for (int i = 0; ok && i < n; i++) ok = got[i] == 1000 + 7 * i;
        CASE("range-for-over-CIterator", ok, "source of %d items ending with code %d: the loop saw %d items", n, code, (int)got.size());
    }
    for (int n = 0; n <= 6; n++) {
        std::vector<int32_t> v; for (int i = 0; i < n; i++) v.push_back(i * i - 3);
        CPPIterator<std::vector<int32_t>> cpp(v);
        CIterator<int32_t> &ci = cpp;
        std::vector<int32_t> got; int32_t out = 0; int rc = 0, steps = 0;
        while ((rc = ci.func(ci.iter, &out)) == 0 && steps++ < 100) got.push_back(out);
        CASE("CPPIterator-over-vector", got == v && rc != 0 && ci.func(ci.iter, &out) != 0, "vector of %d items: drained %d", n, (int)got.size());
    }
    for (int n = 0; n <= 5; n++) {
        std::vector<KeyValue> sink;
        OpaqueCallback<KeyValue> cb = &sink;
        int offered = 0;
        for (int i = 0; i < n; i++) { KeyValue kv; kv._0.data = (const uint8_t *)"k"; kv._0.len = 1; kv._1 = 10 + i; offered++; if (!cb.func(cb.context, kv)) break; }
        bool ok = (int)sink.size() == n && offered == n;
        for (int i = 0; ok && i < n; i++) ok = sink[i]._1 == (uintptr_t)(10 + i);
        CASE("callback-from-vector-pointer", ok, "%d items offered, vector holds %d", n, (int)sink.size());
        for (int stop = 0; stop <= n; stop++) {
            std::vector<uintptr_t> seen;
            auto f = [&](KeyValue kv) { seen.push_back(kv._1); return (int)seen.size() <= stop; };
            OpaqueCallback<KeyValue> cb2 = f;
            int off = 0;
            for (int i = 0; i < n; i++) { KeyValue kv; kv._0.data = (const uint8_t *)"k"; kv._0.len = 1; kv._1 = 20 + i; off++; if (!cb2.func(cb2.context, kv)) break; }
            int want = n < stop + 1 ? n : stop + 1;
            bool ok2 = (int)seen.size() == want && off == want;
            for (int i = 0; ok2 && i < want; i++) ok2 = seen[i] == (uintptr_t)(20 + i);
            CASE("callback-from-lambda", ok2, "%d items, closure declines after %d: saw %d", n, stop, (int)seen.size());
        }
    }
    // closures that keep their state inside themselves (mutable lambda with by-value captures, functor object): the callback must call the
    // caller's object in place, so that the stop position and the collected state are the caller's
    for (int n = 0; n <= 6; n++) for (int stop = 1; stop <= 4; stop++) {
        struct Counting { int seen; int stop; uintptr_t sum; bool operator()(KeyValue kv) { sum += kv._1; return ++seen < stop; } };
        Counting f = {0, stop, 0};
        OpaqueCallback<KeyValue> cb = f;
        int off = 0;
        for (int i = 0; i < n; i++) { KeyValue kv; kv._0.data = (const uint8_t *)"k"; kv._0.len = 1; kv._1 = 30 + i; off++; if (!cb.func(cb.context, kv)) break; }
        int want = n < stop ? n : stop;
        uintptr_t wsum = 0; for (int i = 0; i < want; i++) wsum += 30 + i;
        CASE("callback-from-stateful-functor", off == want && f.seen == want && f.sum == wsum, "%d items, functor declines at its call number %d: %d offered, functor saw %d", n, stop, off, f.seen);
        int calls = 0;
        auto g = [seen = 0, stop, &calls](KeyValue) mutable { calls++; return ++seen < stop; };
        OpaqueCallback<KeyValue> cb2 = g;
        int off2 = 0;
        for (int i = 0; i < n; i++) { KeyValue kv; kv._0.data = (const uint8_t *)"k"; kv._0.len = 1; kv._1 = i; off2++; if (!cb2.func(cb2.context, kv)) break; }
        CASE("callback-from-mutable-lambda", off2 == want && calls == want, "%d items, lambda declines at its call number %d: %d offered, %d calls", n, stop, off2, calls);
    }
    {
        CSliceRef<uint8_t> a("hello"); CASE("slice-from-c-string", a.len == 5 && a.data[4] == 'o', "len %lu", (unsigned long)a.len);
        CSliceRef<uint8_t> b("a\0b\0", 4); CASE("slice-from-pointer-and-length", b.len == 4 && b.data[2] == 'b', "len %lu", (unsigned long)b.len);
        CSliceRef<uint8_t> e(""); CASE("slice-from-c-string", e.len == 0, "empty: len %lu", (unsigned long)e.len);
    }
    printf("HELPERS cases=%d violations=%d\n", cases, viol);
    return 0;
}
