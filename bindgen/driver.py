"""Generates a C driver for a *post-processed* header: every root object/group type gets mock
vtables that log (root, trait, slot, container address, argument check); every wrapper the
header offers is called with sentinel arguments; the log is printed for the offline oracle."""
import re

WRAP_RE = re.compile(r"^static inline (?P<ret>[^\n(]*?)\b(?P<name>\w+)\((?P<params>[^\n]*)\)\s*\{\n(?P<body>.*?)\n\}\n", re.S | re.M)

# type text -> (sentinel expression builder(i), equality expression builder(a, b))
def _scalar(base):
    return (lambda i: "(%s + %d)" % (base, i), lambda a, b: "(%s) == (%s)" % (a, b))


SENT = {
    "uint8_t": (lambda i: "(uint8_t)(0x50 + %d)" % i, lambda a, b: "(%s) == (%s)" % (a, b)),
    "uint32_t": _scalar("0xC0FFEE00u"),
    "uint64_t": _scalar("0x1122334455667700ull"),
    "int32_t": (lambda i: "(-12345 - %d)" % i, lambda a, b: "(%s) == (%s)" % (a, b)),
    "uintptr_t": _scalar("(uintptr_t)0xABCDEF00"),
    "bool": (lambda i: "true", lambda a, b: "(%s) == (%s)" % (a, b)),
    "double": (lambda i: "(2.5 + %d)" % i, lambda a, b: "(%s) == (%s)" % (a, b)),
    "struct CSliceRef_u8": (lambda i: "((struct CSliceRef_u8){(const uint8_t *)(uintptr_t)(0x1000 + %d), 77 + %d})" % (i, i), lambda a, b: "((%s).data == (%s).data && (%s).len == (%s).len)" % (a, b, a, b)),
    "struct Pair": (lambda i: "((struct Pair){0x21 + %d, 0x9900 + %d})" % (i, i), lambda a, b: "((%s).a == (%s).a && (%s).b == (%s).b)" % (a, b, a, b)),
    "const uint8_t *": (lambda i: "((const uint8_t *)(uintptr_t)(0x2000 + %d))" % i, lambda a, b: "(%s) == (%s)" % (a, b)),
    "uint64_t *": (lambda i: "((uint64_t *)(uintptr_t)(0x3000 + 8 * %d))" % i, lambda a, b: "(%s) == (%s)" % (a, b)),
    "OpaqueCallback_Pair": (lambda i: "((OpaqueCallback_Pair){(void *)(uintptr_t)(0x4000 + %d), sent_cb})" % i, lambda a, b: "((%s).context == (%s).context && (%s).func == (%s).func)" % (a, b, a, b)),
    "KeyValueCallback": (lambda i: "((KeyValueCallback){(void *)(uintptr_t)(0x4100 + %d), sent_kvcb})" % i, lambda a, b: "((%s).context == (%s).context && (%s).func == (%s).func)" % (a, b, a, b)),
    "struct CIterator_i32": (lambda i: "((struct CIterator_i32){(void *)(uintptr_t)(0x4200 + %d), sent_it})" % i, lambda a, b: "((%s).iter == (%s).iter && (%s).func == (%s).func)" % (a, b, a, b)),
    "FNPTR2": (lambda i: "sent_fn", lambda a, b: "(%s) == (%s)" % (a, b)),
    "FNPTR1": (lambda i: "sent_fn1", lambda a, b: "(%s) == (%s)" % (a, b)),
    "FNPTR0": (lambda i: "sent_fn0", lambda a, b: "(%s) == (%s)" % (a, b)),
}


def norm_ty(t):
    t = t.strip()
    t = re.sub(r"\s+\*", " *", t)
    return t


def split_params(p):
    """split a C parameter list at top-level commas"""
    out, depth, cur = [], 0, ""
    for ch in p:
        if ch in "(<[":
            depth += 1
        elif ch in ")>]":
            depth -= 1
        if ch == "," and depth == 0:
            out.append(cur.strip())
            cur = ""
        else:
            cur += ch
    if cur.strip():
        out.append(cur.strip())
    return out



def fnptr_key(params):
    params = params.strip()
    return "FNPTR%d" % (0 if params in ("", "void") else params.count(",") + 1)


def parse_param(p):
    """-> (type text, name)"""
    p = p.strip()
    m = re.match(r"(.*)\(\*\s*(\w*)\)\((.*)\)\s*$", p)
    if m:
        return fnptr_key(m.group(3)), m.group(2)
    m = re.match(r"(.*?)(\w+)$", p)
    return norm_ty(m.group(1)), m.group(2)


def find_wrappers(header):
    ws = []
    for m in WRAP_RE.finditer(header):
        name = m.group("name")
        if name.startswith(("cb_collect_", "cb_count_", "ctx_", "cont_", "buf_iter")):
            continue
        params = split_params(m.group("params"))
        if not params or not params[0].endswith("self"):
            continue
        selfp = params[0]
        rest = [parse_param(x) for x in params[1:]]
        body = m.group("body")
        cast = re.search(r"\(\((?:const )?struct (\w+) \*\)self\)", body)
        byval = re.match(r"(?:const )?struct (\w+) \*?self$", selfp)
        ws.append(dict(name=name, ret=norm_ty(m.group("ret")), selfp=selfp, params=rest, cast=cast.group(1) if cast else None,
                       self_struct=byval.group(1) if byval else None, by_value=bool(byval) and "*" not in selfp))
    return ws


def gen_driver(header_name, em, model, header_text):
    roots = em.roots
    wrappers = find_wrappers(header_text)
    L = []
    A = L.append
    A('#include <stdio.h>\n#include <string.h>\n#include "%s"\n' % header_name)
    A("""
typedef struct { int root, trait, slot; const void *cont; int args_ok; int seq; } Rec;
static Rec LOG[64]; static int NLOG; static int SEQ;
static int box_drops, arc_clones, arc_drops; static int box_drop_seq, arc_clone_seq, arc_drop_seq_first, arc_drop_seq_last;
static unsigned char PAYLOAD[64], CTXPAYLOAD[64];
static void mock_box_drop(void *p) { box_drops++; box_drop_seq = ++SEQ; (void)p; }
static const void *mock_arc_clone(const void *p) { arc_clones++; arc_clone_seq = ++SEQ; return p; }
static void mock_arc_drop(const void *p) { arc_drops++; if (!arc_drop_seq_first) arc_drop_seq_first = ++SEQ; else arc_drop_seq_last = ++SEQ; (void)p; }
static void sent_fn(int32_t a, int32_t b) { (void)a; (void)b; }
static void sent_fn1(int32_t a) { (void)a; }
static void sent_fn0(void) { }
static void reset(void) { NLOG = 0; SEQ = 0; box_drops = arc_clones = arc_drops = 0; box_drop_seq = arc_clone_seq = arc_drop_seq_first = arc_drop_seq_last = 0; }
""")
    text = header_text
    if "OpaqueCallback_Pair" in text:
        A("static bool sent_cb(void *c, struct Pair p) { (void)c; (void)p; return true; }\n")
    if "KeyValueCallback" in text:
        A("static bool sent_kvcb(void *c, struct KeyValue p) { (void)c; (void)p; return true; }\n")
    if "CIterator_i32" in text:
        A("static int32_t sent_it(void *c, int32_t *o) { (void)c; (void)o; return 1; }\n")

    def struct_of(kind, name, inst, ctx):
        for r in roots:
            if r["key"] == (kind, name, inst, ctx):
                return r["struct"]
        return None

    # ---- mocks
    for ri, r in enumerate(roots):
        cont = r["container"]
        for ti, (tname, field, vstruct) in enumerate(r["vtables"]):
            t = model.traits[tname]
            names = []
            for si, m in enumerate(t.methods):
                fn = "mock_%d_%d_%d" % (ri, ti, si)
                names.append(fn)
                cparam = {"ref": "const struct %s *cont" % cont, "mut": "struct %s *cont" % cont, "own": "struct %s cont" % cont}[m.recv]
                ps, checks = [], []
                for ai, (ty, nm) in enumerate(m.args):
                    if nm == "":
                        ps.append(ty)
                        an = re.search(r"\(\*(\w+)\)", ty).group(1)
                        key = fnptr_key(re.search(r"\)\((.*)\)\s*$", ty).group(1))
                    else:
                        ps.append("%s%s%s" % (ty, "" if ty.endswith("*") else " ", nm))
                        an = nm
                        key = norm_ty(ty)
                    if key in SENT:
                        checks.append(SENT[key][1](an, SENT[key][0](ai)))
                    else:
                        checks.append("0 /* no sentinel for %s */" % key)
                if m.ret == "CONT":
                    rty = "struct %s" % cont
                elif isinstance(m.ret, tuple):
                    rs = struct_of(m.ret[0].replace("ptr", ""), m.ret[1], m.ret[2], r["ctx"])
                    rty = "struct %s%s" % (rs, " *" if m.ret[0].endswith("ptr") else "")
                else:
                    rty = m.ret
                A("static %s %s(%s%s) {" % (rty, fn, cparam, "".join(", " + p for p in ps)))
                A("    Rec *r = &LOG[NLOG++ %% 64]; r->root = %d; r->trait = %d; r->slot = %d; r->seq = ++SEQ;" % (ri, ti, si))
                if m.recv == "own":
                    inst_ok = {"Box": "cont.instance.instance == (void *)PAYLOAD && cont.instance.drop_fn == mock_box_drop", "Mut": "cont.instance == (void *)PAYLOAD", "Ref": "cont.instance == (const void *)PAYLOAD"}[r["inst"]]
                    ctx_ok = " && cont.context.instance == (const void *)CTXPAYLOAD" if r["ctx"] == "Arc" else ""
                    A("    r->cont = (%s%s) ? (const void *)PAYLOAD : NULL;" % (inst_ok, ctx_ok))
                    # the callee owns the container now: it releases instance and context, as the Rust side would
                    if r["inst"] == "Box":
                        A("    cont.instance.drop_fn(cont.instance.instance);")
                    if r["ctx"] == "Arc":
                        A("    cont.context.drop_fn(cont.context.instance);")
                else:
                    A("    r->cont = (const void *)cont;")
                A("    r->args_ok = %s;" % (" && ".join(checks) if checks else "1"))
                if m.ret == "CONT":
                    A("    struct %s out; memset(&out, 0x7b, sizeof out); return out;" % cont)
                elif isinstance(m.ret, tuple):
                    if m.ret[0].endswith("ptr"):
                        A("    return (%s)(uintptr_t)0x7700;" % rty)
                    else:
                        A("    %s out; memset(&out, 0x7c, sizeof out); return out;" % rty)
                elif m.ret != "void":
                    key = norm_ty(m.ret)
                    A("    return %s;" % SENT[key][0](9))
                A("}")
            A("static const struct %s VT_%d_%d = { %s };" % (vstruct, ri, ti, ", ".join(names)))
        # object builder
        A("static void build_%d(struct %s *o) {" % (ri, r["struct"]))
        A("    memset(o, 0, sizeof *o);")
        for ti, (tname, field, vstruct) in enumerate(r["vtables"]):
            A("    o->%s = &VT_%d_%d;" % (field, ri, ti))
        if r["inst"] == "Box":
            A("    o->container.instance.instance = PAYLOAD; o->container.instance.drop_fn = mock_box_drop;")
        else:
            A("    o->container.instance = PAYLOAD;")
        if r["ctx"] == "Arc":
            A("    o->container.context.instance = CTXPAYLOAD; o->container.context.clone_fn = mock_arc_clone; o->container.context.drop_fn = mock_arc_drop;")
        A("}")
    # ---- calls
    A("int main(void) {")
    for ri, r in enumerate(roots):
        A('    printf("SIZEOF root=%d obj=%%zu cont=%%zu\\n", sizeof(struct %s), sizeof(struct %s));' % (ri, r["struct"], r["container"]))
    ncalls = 0
    for wi, w in enumerate(wrappers):
        # which roots does this wrapper apply to?
        targets = []
        if w["self_struct"]:
            targets = [ri for ri, r in enumerate(roots) if r["struct"] == w["self_struct"]]
        elif w["cast"]:
            base = [r for r in roots if r["struct"] == w["cast"]]
            if not base:
                # the cast may name a flavour of the same object that no root of the model uses (the tool instantiates a context-generic
                # type for every context of the header): same trait/group and instance kind, other context
                def stem(r_):
                    if r_["kind"] == "obj":
                        return r_["struct"].split("Vtbl_CGlueObjContainer_")[0] + "Vtbl_CGlueObjContainer_"
                    st = r_["struct"]
                    for c in ("CArc_c_void", "NoContext"):
                        if st.endswith(c):
                            st = st[:-len(c)]
                    return st.rstrip("_") + "_"
                base = [r for r in roots if w["cast"].startswith(stem(r)) and (r["kind"] == "obj") == w["cast"].startswith("CGlueTraitObj_")]
            if base:
                targets = [ri for ri, r in enumerate(roots) if (r["kind"], r["name"]) == (base[0]["kind"], base[0]["name"])]
        for ri in targets:
            r = roots[ri]
            if w["ret"].startswith("struct ") and not w["ret"].endswith("*") and w["cast"] and w["ret"] == "struct " + w["cast"] and r["struct"] != w["cast"]:
                continue    # a wrapper that returns a new object of one concrete type (clone) is only meaningful on that type
            ncalls += 1
            A("    { /* wrapper %s on root %d (%s %s %s %s) */" % (w["name"], ri, r["kind"], r["name"], r["inst"], r["ctx"] or "NoContext"))
            A("        struct %s obj; build_%d(&obj); reset();" % (r["struct"], ri))
            args = []
            ok = True
            for ai, (ty, nm) in enumerate(w["params"]):
                if ty in SENT:
                    args.append(SENT[ty][0](ai))
                else:
                    ok = False
                    args.append("0")
            selfarg = "obj" if w["by_value"] else "&obj"
            call = "%s(%s%s)" % (w["name"], selfarg, "".join(", " + a for a in args))
            ret = w["ret"]
            retcheck = "1"
            if ret == "void":
                A("        %s;" % call)
            elif ret in SENT:
                A("        %s rv = %s;" % (ret, call))
                retcheck = SENT[ret][1]("rv", SENT[ret][0](9))
            elif ret.endswith("*") and ret.startswith("struct"):
                A("        %s rv = %s;" % (ret, call))
                retcheck = "rv == (%s)(uintptr_t)0x7700" % ret
            elif ret.startswith("struct"):
                A("        %s rv = %s;" % (ret, call))
                sname = ret.replace("struct ", "")
                if sname == r["struct"]:
                    # wrap_in_container: container bits from the mock (0x7b..), vtables copied from the object
                    vt_ok = " && ".join("rv.%s == obj.%s" % (f, f) for _, f, _ in r["vtables"])
                    retcheck = "(((unsigned char *)&rv.container)[0] == 0x7b && %s)" % vt_ok
                else:
                    retcheck = "(((unsigned char *)&rv)[0] == 0x7c)"
            else:
                A("        %s rv = %s; (void)rv;" % (ret, call))
                retcheck = "-1"
            A('        printf("CALL w=%s root=%d known_params=%d nlog=%%d", NLOG);' % (w["name"], ri, 1 if ok else 0))
            A('        for (int i = 0; i < NLOG && i < 4; i++) printf(" [root=%d trait=%d slot=%d cont_ok=%d args_ok=%d seq=%d]", LOG[i].root, LOG[i].trait, LOG[i].slot, LOG[i].cont == (const void *)&obj.container || LOG[i].cont == (const void *)PAYLOAD, LOG[i].args_ok, LOG[i].seq);')
            A('        printf(" ret_ok=%%d box_drops=%%d arc_clones=%%d arc_drops=%%d clone_seq=%%d drop_first=%%d drop_last=%%d box_seq=%%d\\n", (int)(%s), box_drops, arc_clones, arc_drops, arc_clone_seq, arc_drop_seq_first, arc_drop_seq_last, box_drop_seq);' % retcheck)
            A("    }")
    for line in helper_tests(header_text):
        A(line)
    A('    printf("DONE calls=%d\\n");' % ncalls)
    A("    return 0;\n}")
    return "\n".join(L) + "\n", wrappers


def helper_tests(text):
    """the callback / iterator helper macros the processed C header offers to its users, driven the way the
    Rust side drives them: func(context, item) until it returns false; next(state, &out) until it returns non-zero"""
    out = []
    for ty, mk, eq in (("Pair", "(struct Pair){(uint8_t)(k), 0x9900 + (k)}", "got[k].a == (uint8_t)k && got[k].b == 0x9900 + (uint64_t)k"),
                       ("KeyValue", "(struct KeyValue){{(const uint8_t *)(uintptr_t)(0x100 + (k)), (k)}, 7 * (k)}", "got[k]._0.len == (uintptr_t)k && got[k]._1 == 7 * (uintptr_t)k")):
        if "cb_collect_dynamic_%s(" % ty not in text:
            continue
        out.append("    { /* COLLECT_CB / COLLECT_CB_INTO_ARR / COUNT_CB for %s */" % ty)
        out.append("        static const int NS[] = {0, 1, 2, 63, 64, 65, 127, 128, 129, 1000};")
        out.append("        for (unsigned t = 0; t < sizeof NS / sizeof *NS; t++) {")
        out.append("            int n = NS[t], ok = 1, refused = 0;")
        out.append("            COLLECT_CB(%s, cb);" % ty)
        out.append("            for (int k = 0; k < n; k++) { if (!cb.func(cb.context, %s)) { refused++; } }" % mk)
        out.append("            struct %s *got = *cb_data;" % ty)
        out.append("            if (refused || cb_base.size != (size_t)n || cb_base.capacity < cb_base.size) ok = 0;")
        out.append("            for (int k = 0; ok && k < n; k++) { if (!(%s)) ok = 0; }" % eq)
        out.append('            printf("HELPER name=COLLECT_CB ty=%s n=%%d ok=%%d size=%%zu refused=%%d\\n", n, ok, cb_base.size, refused);' % ty)
        out.append("            free(cb_base.buf);")
        out.append("            COUNT_CB(%s, cnt);" % ty)
        out.append("            int cont = 1; for (int k = 0; k < n; k++) { cont = cont && cnt.func(cnt.context, %s); }" % mk)
        out.append('            printf("HELPER name=COUNT_CB ty=%s n=%%d ok=%%d\\n", n, (int)(cont && cnt_count == (size_t)n));' % ty)
        out.append("        }")
        out.append("        for (int n = 0; n <= 8; n++) {")
        out.append("            struct %s arr[5]; memset(arr, 0, sizeof arr);" % ty)
        out.append("            COLLECT_CB_INTO_ARR(%s, cb, arr);" % ty)
        out.append("            int offered = 0; for (int k = 0; k < n; k++) { offered++; if (!cb.func(cb.context, %s)) break; }" % mk)
        out.append("            struct %s *got = arr; int want = n < 5 ? n : 5; int ok = cb_base.size == (size_t)want && offered == want;" % ty)
        out.append("            for (int k = 0; ok && k < want; k++) { if (!(%s)) ok = 0; }" % eq)
        out.append('            printf("HELPER name=COLLECT_CB_INTO_ARR ty=%s n=%%d ok=%%d size=%%zu offered=%%d\\n", n, ok, cb_base.size, offered);' % ty)
        out.append("        }")
        out.append("    }")
    if "struct CIterator_i32" in text and "buf_iter_next" in text:
        out.append("    { /* BUF_ITER_SPEC over int32_t */")
        out.append("        for (int n = 0; n <= 6; n++) {")
        out.append("            int32_t data[7] = {10, -11, 12, -13, 14, -15, 16};")
        out.append("            BUF_ITER_SPEC(i32, int32_t, it, data, n);   /* the form examples/c-user-bin uses for primitive element types */")
        out.append("            int ok = 1, k = 0; int32_t o = 0;")
        out.append("            while (it.func(it.iter, &o) == 0) { if (k >= n || o != data[k]) ok = 0; k++; if (k > 10) break; }")
        out.append("            if (k != n || it.func(it.iter, &o) == 0) ok = 0;")
        out.append('            printf("HELPER name=BUF_ITER ty=i32 n=%d ok=%d\\n", n, ok);')
        out.append("            /* the buffer may be handed over untyped (malloc'd region, byte pointer): the element type is the macro's second argument */")
        out.append("            { const void *raw = data; const uint8_t *bytes = (const uint8_t *)data; int okv = 1, kv = 0;")
        out.append("              BUF_ITER_SPEC(i32, int32_t, itv, raw, n); while (itv.func(itv.iter, &o) == 0) { if (kv >= n || o != data[kv]) okv = 0; kv++; if (kv > 10) break; } if (kv != n) okv = 0;")
        out.append("              BUF_ITER_SPEC(i32, int32_t, itb, bytes, n); kv = 0; while (itb.func(itb.iter, &o) == 0) { if (kv >= n || o != data[kv]) okv = 0; kv++; if (kv > 10) break; } if (kv != n) okv = 0;")
        out.append('              printf("HELPER name=BUF_ITER_UNTYPED ty=i32 n=%d ok=%d\\n", n, okv); }')
        out.append("            /* the source is not fused: after the end was reported (twice), the C side publishes more of the buffer; exactly those items must follow */")
        out.append("            if (n <= 4) { it_base.size = (size_t)n + 2; int ok2 = 1, k2 = 0;")
        out.append("                while (it.func(it.iter, &o) == 0) { if (k2 >= 2 || o != data[n + k2]) ok2 = 0; k2++; if (k2 > 10) break; }")
        out.append("                if (k2 != 2) ok2 = 0;")
        out.append('                printf("HELPER name=BUF_ITER_GROWN ty=i32 n=%d ok=%d got=%d\\n", n, ok2, k2); }')
        out.append("        }")
        out.append("    }")
    return out
