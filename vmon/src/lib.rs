//! Monitors shared by every Rust harness: PRNG, drop-tracking payloads, a tracking global
//! allocator, and a JSON-lines reporter.  No dependencies.
pub mod alloc;
pub mod report;
pub mod rng;
pub mod tracked;

pub use report::Report;
pub use rng::Rng;
pub use tracked::{Tracked, TrackedZst};
