//! JSON-lines reporter.  Violations are printed the moment they are seen (the process may
//! die right afterwards); stats and samples at the end.
use std::collections::BTreeMap;
use std::fmt::Write as _;
use std::io::Write as _;

pub fn esc(s: &str) -> String {
    let mut o = String::with_capacity(s.len() + 2);
    for c in s.chars() {
        match c {
            '"' => o.push_str("\\\""),
            '\\' => o.push_str("\\\\"),
            '\n' => o.push_str("\\n"),
            '\r' => o.push_str("\\r"),
            '\t' => o.push_str("\\t"),
            c if (c as u32) < 0x20 => {
                let _ = write!(o, "\\u{:04x}", c as u32);
            }
            c => o.push(c),
        }
    }
    o
}

static PRINTED: std::sync::Mutex<BTreeMap<String, u32>> = std::sync::Mutex::new(BTreeMap::new());

#[derive(Default)]
pub struct Report {
    pub stats: BTreeMap<String, u64>,
    pub violations: u64,
    samples: Vec<String>,
    distinct: std::collections::HashSet<u64>,
}

impl Report {
    pub fn new() -> Self {
        Self::default()
    }
    pub fn add(&mut self, k: &str, n: u64) {
        *self.stats.entry(k.to_string()).or_insert(0) += n;
    }
    pub fn set_max(&mut self, k: &str, n: u64) {
        let e = self.stats.entry(k.to_string()).or_insert(0);
        if n > *e {
            *e = n;
        }
    }
    /// count a case as distinct by its digest
    pub fn distinct(&mut self, digest: u64) {
        self.distinct.insert(digest);
    }
    pub fn sample(&mut self, what: &str, text: &str) {
        if self.samples.len() < 6 {
            self.samples.push(format!("{{\"k\":\"sample\",\"what\":\"{}\",\"case\":\"{}\"}}", esc(what), esc(text)));
        }
    }
    pub fn violation(&mut self, sig: &str, detail: &str, replay: &str) {
        self.violations += 1;
        // the print cap is per signature (and process-wide): a flood of one kind - e.g. a listed
        // known finding - must never hide a violation of another kind
        let n = {
            let mut m = PRINTED.lock().unwrap_or_else(|e| e.into_inner());
            let e = m.entry(sig.to_string()).or_insert(0);
            *e += 1;
            *e
        };
        if n <= 12 {
            let mut o = std::io::stdout().lock();
            let _ = writeln!(o, "{{\"k\":\"violation\",\"sig\":\"{}\",\"detail\":\"{}\",\"replay\":\"{}\"}}", esc(sig), esc(detail), esc(replay));
            let _ = o.flush();
        }
    }
    /// fold a per-case report into this one (violations were already printed)
    pub fn merge(&mut self, o: Report) {
        for (k, v) in o.stats {
            *self.stats.entry(k).or_insert(0) += v;
        }
        self.violations += o.violations;
        for d in o.distinct {
            self.distinct.insert(d);
        }
        for s in o.samples {
            if self.samples.len() < 6 {
                self.samples.push(s);
            }
        }
    }
    pub fn finish(&mut self) {
        let mut o = std::io::stdout().lock();
        for s in &self.samples {
            let _ = writeln!(o, "{}", s);
        }
        let mut line = String::from("{\"k\":\"stat\"");
        let _ = write!(line, ",\"distinct_cases\":{}", self.distinct.len());
        let _ = write!(line, ",\"violations_seen\":{}", self.violations);
        for (k, v) in &self.stats {
            let _ = write!(line, ",\"{}\":{}", esc(k), v);
        }
        if crate::alloc::saturated() {
            let _ = write!(line, ",\"alloc_table_saturated\":1");
        }
        line.push('}');
        let _ = writeln!(o, "{}", line);
        let _ = writeln!(o, "{{\"k\":\"done\"}}");
        let _ = o.flush();
    }
}
