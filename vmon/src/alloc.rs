//! Tracking global allocator.  Wraps `System`, remembers every live block with the layout it
//! was allocated with, and records a violation when a block is freed/reallocated with another
//! layout, freed twice, or freed without ever having been allocated here (foreign module).
//! All bookkeeping lives in static memory: no allocation inside the allocator.
use std::alloc::{GlobalAlloc, Layout, System};
use std::sync::atomic::{AtomicBool, AtomicU64, AtomicUsize, Ordering};

const BITS: usize = 18;
const CAP: usize = 1 << BITS;
const MASK: usize = CAP - 1;

#[derive(Clone, Copy)]
struct Slot {
    ptr: usize,
    size: usize,
    align: usize,
    seq: u64,
}
const EMPTY: Slot = Slot { ptr: 0, size: 0, align: 0, seq: 0 };

#[derive(Clone, Copy, Debug)]
pub struct AllocViolation {
    pub kind: u8, // 1 = free of unknown ptr, 2 = layout mismatch on free, 3 = layout mismatch on realloc, 4 = table full
    pub ptr: usize,
    pub alloc_size: usize,
    pub alloc_align: usize,
    pub free_size: usize,
    pub free_align: usize,
}
const NOVIOL: AllocViolation =
    AllocViolation { kind: 0, ptr: 0, alloc_size: 0, alloc_align: 0, free_size: 0, free_align: 0 };

struct State {
    table: [Slot; CAP],
    viol: [AllocViolation; 64],
}

static mut STATE: State = State { table: [EMPTY; CAP], viol: [NOVIOL; 64] };
static LOCK: AtomicBool = AtomicBool::new(false);
static NVIOL: AtomicUsize = AtomicUsize::new(0);
static LIVE: AtomicUsize = AtomicUsize::new(0);
static LIVE_BYTES: AtomicUsize = AtomicUsize::new(0);
static SEQ: AtomicU64 = AtomicU64::new(0);
static ALLOCS: AtomicU64 = AtomicU64::new(0);
static FREES: AtomicU64 = AtomicU64::new(0);
static ACTIVE: AtomicBool = AtomicBool::new(false);

struct Guard;
fn lock() -> Guard {
    while LOCK.compare_exchange_weak(false, true, Ordering::Acquire, Ordering::Relaxed).is_err() {
        std::hint::spin_loop();
    }
    Guard
}
impl Drop for Guard {
    fn drop(&mut self) {
        LOCK.store(false, Ordering::Release);
    }
}

fn hash(p: usize) -> usize {
    ((p >> 4).wrapping_mul(0x9E37_79B9_7F4A_7C15usize) >> (64 - BITS)) & MASK
}

unsafe fn st() -> &'static mut State {
    &mut *core::ptr::addr_of_mut!(STATE)
}

unsafe fn push_viol(v: AllocViolation) {
    let n = NVIOL.fetch_add(1, Ordering::SeqCst);
    if n < 64 {
        st().viol[n] = v;
    }
}

/// Set once the table is nearly full (a workload that leaks without bound).  From then on blocks
/// are no longer recorded and unknown blocks are no longer reported: the run is inconclusive for
/// allocator accounting, which `Report::finish` states as `alloc_table_saturated`.
static SATURATED: AtomicBool = AtomicBool::new(false);
pub fn saturated() -> bool {
    SATURATED.load(Ordering::SeqCst)
}

unsafe fn insert(ptr: usize, size: usize, align: usize) {
    let seq = SEQ.fetch_add(1, Ordering::SeqCst) + 1;
    if LIVE.load(Ordering::SeqCst) >= CAP - CAP / 8 {
        SATURATED.store(true, Ordering::SeqCst);
        return;
    }
    let _g = lock();
    let t = &mut st().table;
    let mut i = hash(ptr);
    let mut n = 0;
    while t[i].ptr != 0 {
        i = (i + 1) & MASK;
        n += 1;
        if n >= CAP {
            push_viol(AllocViolation { kind: 4, ptr, alloc_size: size, alloc_align: align, free_size: 0, free_align: 0 });
            return;
        }
    }
    t[i] = Slot { ptr, size, align, seq };
    LIVE.fetch_add(1, Ordering::SeqCst);
    LIVE_BYTES.fetch_add(size, Ordering::SeqCst);
}

/// removes and returns the slot
unsafe fn remove(ptr: usize) -> Option<Slot> {
    let _g = lock();
    let t = &mut st().table;
    let mut i = hash(ptr);
    let mut n = 0;
    loop {
        if t[i].ptr == 0 {
            return None;
        }
        if t[i].ptr == ptr {
            break;
        }
        i = (i + 1) & MASK;
        n += 1;
        if n >= CAP {
            return None;
        }
    }
    let found = t[i];
    // backward-shift deletion
    let mut j = i;
    let mut steps = 0;
    loop {
        j = (j + 1) & MASK;
        steps += 1;
        if t[j].ptr == 0 || steps >= CAP {
            break;
        }
        let k = hash(t[j].ptr);
        let skip = if i <= j { i < k && k <= j } else { i < k || k <= j };
        if skip {
            continue;
        }
        t[i] = t[j];
        i = j;
    }
    t[i] = EMPTY;
    LIVE.fetch_sub(1, Ordering::SeqCst);
    LIVE_BYTES.fetch_sub(found.size, Ordering::SeqCst);
    Some(found)
}

pub struct TrackingAlloc;

unsafe impl GlobalAlloc for TrackingAlloc {
    unsafe fn alloc(&self, layout: Layout) -> *mut u8 {
        let p = System.alloc(layout);
        if !p.is_null() {
            ACTIVE.store(true, Ordering::Relaxed);
            ALLOCS.fetch_add(1, Ordering::Relaxed);
            insert(p as usize, layout.size(), layout.align());
        }
        p
    }
    unsafe fn alloc_zeroed(&self, layout: Layout) -> *mut u8 {
        let p = System.alloc_zeroed(layout);
        if !p.is_null() {
            ACTIVE.store(true, Ordering::Relaxed);
            ALLOCS.fetch_add(1, Ordering::Relaxed);
            insert(p as usize, layout.size(), layout.align());
        }
        p
    }
    unsafe fn dealloc(&self, ptr: *mut u8, layout: Layout) {
        FREES.fetch_add(1, Ordering::Relaxed);
        match remove(ptr as usize) {
            None if saturated() => System.dealloc(ptr, layout),
            None => {
                push_viol(AllocViolation { kind: 1, ptr: ptr as usize, alloc_size: 0, alloc_align: 0, free_size: layout.size(), free_align: layout.align() });
                // double free or foreign block: do not hand it to the system allocator again
            }
            Some(s) => {
                if s.size != layout.size() || s.align != layout.align() {
                    push_viol(AllocViolation { kind: 2, ptr: ptr as usize, alloc_size: s.size, alloc_align: s.align, free_size: layout.size(), free_align: layout.align() });
                }
                System.dealloc(ptr, Layout::from_size_align_unchecked(s.size, s.align));
            }
        }
    }
    unsafe fn realloc(&self, ptr: *mut u8, layout: Layout, new_size: usize) -> *mut u8 {
        match remove(ptr as usize) {
            None if saturated() => System.realloc(ptr, layout, new_size),
            None => {
                push_viol(AllocViolation { kind: 1, ptr: ptr as usize, alloc_size: 0, alloc_align: 0, free_size: layout.size(), free_align: layout.align() });
                // cannot realloc a block we do not own: emulate with a fresh block
                let np = System.alloc(Layout::from_size_align_unchecked(new_size, layout.align()));
                if !np.is_null() {
                    insert(np as usize, new_size, layout.align());
                }
                np
            }
            Some(s) => {
                if s.size != layout.size() || s.align != layout.align() {
                    push_viol(AllocViolation { kind: 3, ptr: ptr as usize, alloc_size: s.size, alloc_align: s.align, free_size: layout.size(), free_align: layout.align() });
                }
                let np = System.realloc(ptr, Layout::from_size_align_unchecked(s.size, s.align), new_size);
                if np.is_null() {
                    insert(ptr as usize, s.size, s.align);
                } else {
                    ALLOCS.fetch_add(1, Ordering::Relaxed);
                    FREES.fetch_add(1, Ordering::Relaxed);
                    insert(np as usize, new_size, s.align);
                }
                np
            }
        }
    }
}

pub fn active() -> bool {
    ACTIVE.load(Ordering::Relaxed)
}
pub fn live_blocks() -> usize {
    LIVE.load(Ordering::SeqCst)
}
pub fn live_bytes() -> usize {
    LIVE_BYTES.load(Ordering::SeqCst)
}
pub fn seq() -> u64 {
    SEQ.load(Ordering::SeqCst)
}
pub fn counts() -> (u64, u64) {
    (ALLOCS.load(Ordering::SeqCst), FREES.load(Ordering::SeqCst))
}
pub fn violation_count() -> usize {
    NVIOL.load(Ordering::SeqCst)
}
pub fn violations() -> Vec<AllocViolation> {
    let n = NVIOL.load(Ordering::SeqCst).min(64);
    let mut v = Vec::with_capacity(n);
    let _g = lock();
    for i in 0..n {
        v.push(unsafe { st().viol[i] });
    }
    v
}
/// (ptr,size,align,seq) of blocks allocated after `since` that are still live.
pub fn live_since(since: u64) -> Vec<(usize, usize, usize, u64)> {
    let mut v: Vec<(usize, usize, usize, u64)> = Vec::with_capacity(4096);
    let own = v.as_ptr() as usize;
    let _g = lock();
    let t = unsafe { &st().table };
    for s in t.iter() {
        if s.ptr != 0 && s.ptr != own && s.seq > since && v.len() < v.capacity() {
            v.push((s.ptr, s.size, s.align, s.seq));
        }
    }
    v
}
/// Is `ptr` the start of a live block, and with which size?
pub fn lookup(ptr: usize) -> Option<(usize, usize)> {
    let _g = lock();
    let t = unsafe { &st().table };
    let mut i = hash(ptr);
    let mut n = 0;
    while t[i].ptr != 0 && n < CAP {
        if t[i].ptr == ptr {
            return Some((t[i].size, t[i].align));
        }
        i = (i + 1) & MASK;
        n += 1;
    }
    None
}
