/// SplitMix64 – all random choices derive from VERIF_SEED through this.
#[derive(Clone, Debug)]
pub struct Rng(pub u64);

impl Rng {
    pub fn new(seed: u64) -> Self {
        Rng(seed ^ 0x9E37_79B9_7F4A_7C15)
    }
    pub fn next(&mut self) -> u64 {
        self.0 = self.0.wrapping_add(0x9E37_79B9_7F4A_7C15);
        let mut z = self.0;
        z = (z ^ (z >> 30)).wrapping_mul(0xBF58_476D_1CE4_E5B9);
        z = (z ^ (z >> 27)).wrapping_mul(0x94D0_49BB_1331_11EB);
        z ^ (z >> 31)
    }
    pub fn below(&mut self, n: usize) -> usize {
        if n == 0 {
            0
        } else {
            (self.next() % n as u64) as usize
        }
    }
    pub fn chance(&mut self, num: u64, den: u64) -> bool {
        self.next() % den < num
    }
    pub fn fork(&mut self) -> Rng {
        Rng(self.next())
    }
    /// boundary-heavy u64
    pub fn edgy(&mut self) -> u64 {
        match self.below(8) {
            0 => 0,
            1 => 1,
            2 => u64::MAX,
            3 => i64::MAX as u64,
            4 => i64::MIN as u64,
            5 => 1u64 << self.below(64),
            _ => self.next(),
        }
    }
}

pub fn mix(a: u64, b: u64) -> u64 {
    let mut z = a ^ b.wrapping_mul(0x9E37_79B9_7F4A_7C15).rotate_left(23);
    z = (z ^ (z >> 30)).wrapping_mul(0xBF58_476D_1CE4_E5B9);
    z = (z ^ (z >> 27)).wrapping_mul(0x94D0_49BB_1331_11EB);
    z ^ (z >> 31)
}
