//! Droppable payloads whose destruction is observed from outside the object.
use std::mem::ManuallyDrop;
use std::sync::atomic::{AtomicU64, Ordering};
use std::sync::Mutex;

#[derive(Clone, Copy, Debug, Default)]
pub struct Entry {
    pub drops: u32,
    pub tag: u32,
}

static REG: Mutex<Vec<Entry>> = Mutex::new(Vec::new());
static DOUBLE_DROPS: AtomicU64 = AtomicU64::new(0);
static CORRUPT: AtomicU64 = AtomicU64::new(0);

fn magic(id: u64) -> u64 {
    id.wrapping_mul(0x9E37_79B9_7F4A_7C15) ^ 0x5bd1_e995_c0ff_ee00
}

/// Heap-owning payload with a unique id.  The registry outlives the payload, so a second
/// drop of the same id is seen at the moment it happens.
#[derive(Debug)]
pub struct Tracked {
    pub id: u64,
    heap: ManuallyDrop<Box<u64>>,
}

impl Tracked {
    pub fn new() -> Self {
        Self::with_tag(0)
    }
    pub fn with_tag(tag: u32) -> Self {
        let mut r = REG.lock().unwrap_or_else(|e| e.into_inner());
        let id = r.len() as u64;
        r.push(Entry { drops: 0, tag });
        drop(r);
        Tracked { id, heap: ManuallyDrop::new(Box::new(magic(id))) }
    }
    /// Reads the heap cell: UAF under Miri/ASan/valgrind if the payload was freed, and a
    /// recorded corruption natively if the cell no longer holds this id's value.
    pub fn touch(&self) -> u64 {
        let v = **self.heap;
        if v != magic(self.id) {
            CORRUPT.fetch_add(1, Ordering::SeqCst);
        }
        self.id
    }
    pub fn addr(&self) -> usize {
        self as *const _ as usize
    }
}

impl Default for Tracked {
    fn default() -> Self {
        Self::new()
    }
}

impl Clone for Tracked {
    /// A clone is a *new* value with its own id (tag = 1 + source id, to recognise clones).
    fn clone(&self) -> Self {
        self.touch();
        Tracked::with_tag(self.id as u32 + 1)
    }
}

impl PartialEq for Tracked {
    fn eq(&self, o: &Self) -> bool {
        self.id == o.id
    }
}

impl Drop for Tracked {
    fn drop(&mut self) {
        let mut r = REG.lock().unwrap_or_else(|e| e.into_inner());
        let first = match r.get_mut(self.id as usize) {
            Some(e) => {
                e.drops += 1;
                e.drops == 1
            }
            None => false,
        };
        drop(r);
        if first {
            if **self.heap != magic(self.id) {
                CORRUPT.fetch_add(1, Ordering::SeqCst);
            }
            unsafe { ManuallyDrop::drop(&mut self.heap) };
        } else {
            DOUBLE_DROPS.fetch_add(1, Ordering::SeqCst);
        }
    }
}

pub fn mark() -> u64 {
    REG.lock().unwrap_or_else(|e| e.into_inner()).len() as u64
}
pub fn drops_of(id: u64) -> u32 {
    REG.lock().unwrap_or_else(|e| e.into_inner()).get(id as usize).map(|e| e.drops).unwrap_or(0)
}
pub fn tag_of(id: u64) -> u32 {
    REG.lock().unwrap_or_else(|e| e.into_inner()).get(id as usize).map(|e| e.tag).unwrap_or(0)
}
pub fn double_drops() -> u64 {
    DOUBLE_DROPS.load(Ordering::SeqCst)
}
pub fn corruptions() -> u64 {
    CORRUPT.load(Ordering::SeqCst)
}
/// ids created since `mark`, split into (never dropped, dropped more than once)
pub fn since(mark: u64) -> (Vec<u64>, Vec<u64>) {
    let r = REG.lock().unwrap_or_else(|e| e.into_inner());
    let mut leaked = vec![];
    let mut multi = vec![];
    for (i, e) in r.iter().enumerate().skip(mark as usize) {
        if e.drops == 0 {
            leaked.push(i as u64);
        } else if e.drops > 1 {
            multi.push(i as u64);
        }
    }
    (leaked, multi)
}
pub fn created_since(mark: u64) -> u64 {
    mark_now() - mark
}
fn mark_now() -> u64 {
    mark()
}

// ---------------------------------------------------------------------------------------------
// zero-sized payload: counted through statics only
static ZST_NEW: AtomicU64 = AtomicU64::new(0);
static ZST_DROP: AtomicU64 = AtomicU64::new(0);

#[derive(Debug)]
pub struct TrackedZst;

impl TrackedZst {
    pub fn new() -> Self {
        ZST_NEW.fetch_add(1, Ordering::SeqCst);
        TrackedZst
    }
    pub fn counts() -> (u64, u64) {
        (ZST_NEW.load(Ordering::SeqCst), ZST_DROP.load(Ordering::SeqCst))
    }
}
impl Default for TrackedZst {
    fn default() -> Self {
        Self::new()
    }
}
impl Clone for TrackedZst {
    fn clone(&self) -> Self {
        Self::new()
    }
}
impl Drop for TrackedZst {
    fn drop(&mut self) {
        ZST_DROP.fetch_add(1, Ordering::SeqCst);
    }
}
