"""Generate, build and run the glue corpus (gen.py) and the lifecycle programs (hist.py)."""
import json
import os
import subprocess

import common
import rtrun
from common import Inconclusive, WORK, VERIF

# which monitor signatures refute which property
SIGMAP = {
    "C01": ("GLUE:wrong-method", "GLUE:wrong-instance", "GLUE:call-count", "GLUE:state-diverged", "GLUE:final-state", "GLUE:result-differs",
            "C01:", "GLUE:panic"),
    "C02": ("GLUE:argument-altered", "GLUE:argument-address", "GLUE:returned-address", "GLUE:into-conversions", "GLUE:result-differs", "GLUE:state-diverged", "GLUE:callee-model"),
    "C06": ("GLUE:leaked", "GLUE:double-drop", "GLUE:dropped-while", "GLUE:borrowed-", "GLUE:alloc", "GLUE:payload-corrupt", "C06:", "GLUE:panic"),
    "C07": ("GLUE:context-count", "C07:"),
    "C08": ("C08:", "GLUE:panic"),
    "C13": ("GLUE:",),
}


def _write_if_changed(path, text):
    if os.path.exists(path):
        with open(path) as f:
            if f.read() == text:
                return
    with open(path, "w") as f:
        f.write(text)


def generate(kind, tier, seed, miri=False):
    """kind: corpus | hist.  Generates into a scratch dir, then syncs changed files only so
    that cargo's fingerprints stay valid."""
    name = "%s-%s-%d%s" % (kind, tier, seed, "-miri" if miri else "")
    final = os.path.join(WORK, "glue", name)
    tmp = final + ".gen"
    os.makedirs(tmp, exist_ok=True)
    script = os.path.join(VERIF, "glue", "gen.py" if kind == "corpus" else "hist.py")
    cmd = ["python3", script, tmp, tier, str(seed)] + (["miri"] if miri else [])
    r = common.run(cmd, timeout=600)
    if r["rc"] != 0:
        raise Inconclusive("generator failed: %s" % r["err"][-2000:])
    os.makedirs(os.path.join(final, "src"), exist_ok=True)
    for root, _, files in os.walk(tmp):
        rel = os.path.relpath(root, tmp)
        os.makedirs(os.path.join(final, rel), exist_ok=True)
        for fn in files:
            with open(os.path.join(root, fn)) as f:
                _write_if_changed(os.path.join(final, rel, fn), f.read())
    # stale shards from an older generator version
    keep = set(os.listdir(os.path.join(tmp, "src")))
    for fn in os.listdir(os.path.join(final, "src")):
        if fn not in keep:
            os.remove(os.path.join(final, "src", fn))
    subprocess.run(["rm", "-rf", tmp])
    common.sync_lock(final)
    return final


def build(cdir, flavor="release"):
    """returns (list of binaries, list of (bin name, error text) that failed to build).
    The corpus is one package with one bin per shard, built with --keep-going so that a shard
    the modified tree can no longer compile does not take the others down."""
    name = os.path.basename(cdir)
    corpus = name.startswith("corpus")
    tdir = os.path.join(cdir, "target")
    if flavor == "release":
        cmd = ["cargo", "build", "--offline", "--release", "--keep-going"]
        bdir = os.path.join(tdir, "release")
    elif flavor == "asan":
        cmd = ["cargo", "+nightly", "build", "--offline", "--release", "--keep-going", "--no-default-features", "--target", "x86_64-unknown-linux-gnu"]
        bdir = os.path.join(tdir, "x86_64-unknown-linux-gnu", "release")
    else:
        raise ValueError(flavor)
    env = {"RUSTFLAGS": "-Zsanitizer=address -Cforce-frame-pointers=yes"} if flavor == "asan" else None
    names = bin_names(cdir)
    for n in names:      # a stale binary from an earlier tree must not be mistaken for a fresh one
        p = os.path.join(bdir, n)
        if os.path.exists(p):
            # (rename() is a no-op when both names are hard links to one file - which is what cargo's
            # uplifting produces after a fresh relink - so the old name must really go away first)
            if os.path.exists(p + ".prev"):
                os.remove(p + ".prev")
            os.rename(p, p + ".prev")
    r = common.run(cmd, cwd=cdir, env=common.env_with(env), timeout=3600)
    if r["timed_out"]:
        raise Inconclusive("glue build timed out (%s)" % flavor)
    built, failed = [], []
    for n in names:
        p = os.path.join(bdir, n)
        if os.path.exists(p):
            built.append(p)
        elif r["rc"] == 0 and os.path.exists(p + ".prev"):
            os.rename(p + ".prev", p)      # cargo found it fresh and did not relink
            built.append(p)
        else:
            failed.append((n, r["err"][-3000:]))
    if not built:
        raise Inconclusive("glue build failed (%s): %s" % (flavor, r["err"][-5000:]))
    return built, failed


def bin_names(cdir):
    name = os.path.basename(cdir)
    if name.startswith("corpus"):
        return sorted(f[:-3] for f in os.listdir(os.path.join(cdir, "src", "bin")) if f.endswith(".rs"))
    return ["gluehist"]


def _stub_info(cdir, stub):
    with open(stub) as f:
        j = json.load(f)["RunWith"]
    args = [a for a in j["args"] if not a.startswith("--error-format") and not a.startswith("--json")]
    cenv = {}
    for k, v in j["env"]:
        k, v = rtrun._dec(k), rtrun._dec(v)
        if k.startswith("CARGO_"):
            cenv[k] = v
    cwd = rtrun._dec(j["current_dir"])
    tc = common.run(["rustc", "+nightly", "--print", "sysroot"], check=True)["out"].strip()
    sysroot = common.run(["cargo", "+nightly", "miri", "setup", "--print-sysroot"], check=True)["out"].strip().splitlines()[-1]
    cenv["MIRI_CWD"] = cwd
    cenv["LD_LIBRARY_PATH"] = os.path.join(tc, "lib")
    return dict(miri=os.path.join(tc, "bin", "miri"), sysroot=sysroot, args=args, env=cenv, cwd=cwd)


def miri_stubs(cdir, limit=None):
    """build under cargo miri once per bin, return infos for direct miri invocations"""
    infos = []
    names = bin_names(cdir)
    if limit:
        names = names[:limit]
    for n in names:
        stub = os.path.join(cdir, "target", "miri", "x86_64-unknown-linux-gnu", "debug", n)
        if os.path.exists(stub):
            os.remove(stub)
        binarg = ["--bin", n] if len(bin_names(cdir)) > 1 else []
        r = common.run(["cargo", "+nightly", "miri", "run", "--offline"] + binarg + ["--", "__none__", "0", "0", "__none__"], cwd=cdir,
                       env=common.env_with({"MIRIFLAGS": rtrun.MIRIFLAGS}), timeout=3600)
        if os.path.exists(stub):
            infos.append(_stub_info(cdir, stub))
    if not infos:
        raise Inconclusive("miri build of %s failed: %s" % (os.path.basename(cdir), r["err"][-3000:]))
    return infos


def miri_stub(cdir):
    return miri_stubs(cdir)[0]


def run_bin(chk, cmd, part, accept, timeout=1800, env=None, cwd=None, miri_info=None, miri_flags=""):
    """run one harness process; keep only violations whose signature belongs to this property"""
    if miri_info:
        full = [miri_info["miri"], "--sysroot", miri_info["sysroot"]] + miri_info["args"] + (rtrun.MIRIFLAGS + " " + miri_flags).split() + ["--"] + cmd
        r = common.run(full, cwd=miri_info["cwd"], env=common.env_with(miri_info["env"], drop=("MIRI_BE_RUSTC",)), timeout=timeout)
    else:
        r = common.run(cmd, env=common.env_with(env), timeout=timeout, cwd=cwd)
    recs = common.parse_jsonl(r["out"])
    mine = []
    other = 0
    for x in recs:
        if x.get("k") == "violation":
            if any(x.get("sig", "").startswith(p) for p in accept):
                mine.append(x)
            else:
                other += 1
        else:
            mine.append(x)
    common.ingest_reports(chk, mine, part)
    if other:
        chk.parts.setdefault(part, {})["violations_of_other_properties_ignored_here"] = other
    if miri_info:
        import re
        errs = [e for e in rtrun.MIRI_ERR.findall(r["err"])]
        ub = [e for e in errs if e.startswith("Undefined Behavior") or "memory leaked" in e or "data race" in e.lower()]
        uns = [e for e in errs if e.startswith("unsupported operation")]
        if r["timed_out"]:
            chk.incon("%s: miri watchdog timeout" % part)
            return False
        if ub:
            head = re.sub(r"alloc\d+|0x[0-9a-f]+|\d+", "N", ub[0])[:160]
            if "memory leaked" in ub[0] and not any(p in ("C06:", "C07:") for p in accept):
                chk.parts.setdefault(part, {})["miri_leak_reported_under_C06_C07"] = 1
            else:
                chk.violation("%s:miri:%s" % (chk.pid, head), r["err"][r["err"].find("error: " + ub[0]):][:2500], dict(cmd=cmd, miri=True))
                return False
        if uns:
            chk.incon("%s: miri unsupported operation: %s" % (part, uns[0][:300]))
            return False
    return rtrun._classify_exit(chk, chk.pid, r, part, " ".join(cmd), recs, dict(cmd=cmd))


def meta(cdir, fn):
    with open(os.path.join(cdir, fn)) as f:
        return json.load(f)
