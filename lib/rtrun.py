"""Build and run the Rust harness crates (rt, and later others) natively, under Miri, ASan
and valgrind; turn their output / tool reports into Check records."""
import concurrent.futures
import os
import re
import signal

import common
from common import Inconclusive, WORK, VERIF, run, env_with, parse_jsonl, ingest_reports

MIRIFLAGS = "-Zmiri-disable-stacked-borrows"   # see DESIGN.md §2: cglue's core idiom is outside SB/TB
CRASH_SIGNALS = {signal.SIGSEGV: "SIGSEGV", signal.SIGABRT: "SIGABRT", signal.SIGBUS: "SIGBUS",
                 signal.SIGILL: "SIGILL", signal.SIGFPE: "SIGFPE"}

_built = {}


def build(crate, flavor):
    """flavor: release | debug | asan | notrack (release, tracking allocator off: valgrind)"""
    key = (crate, flavor)
    if key in _built:
        return _built[key]
    cdir = os.path.join(VERIF, crate)
    if flavor == "release":
        t = common.cargo_build(cdir, crate + "-rel")
        b = os.path.join(t, "release", crate)
    elif flavor == "debug":
        t = common.cargo_build(cdir, crate + "-dbg", profile_release=False)
        b = os.path.join(t, "debug", crate)
    elif flavor == "notrack":
        t = common.cargo_build(cdir, crate + "-notrack", args=["--no-default-features"])
        b = os.path.join(t, "release", crate)
    elif flavor == "asan":
        t = common.cargo_build(
            cdir, crate + "-asan", toolchain="nightly",
            args=["--no-default-features", "--target", "x86_64-unknown-linux-gnu"],
            env={"RUSTFLAGS": "-Zsanitizer=address -Cforce-frame-pointers=yes"})
        b = os.path.join(t, "x86_64-unknown-linux-gnu", "release", crate)
    elif flavor == "tsan":
        t = common.cargo_build(
            cdir, crate + "-tsan", toolchain="nightly",
            args=["--no-default-features", "--target", "x86_64-unknown-linux-gnu", "-Zbuild-std"],
            env={"RUSTFLAGS": "-Zsanitizer=thread"}, timeout=3600)
        b = os.path.join(t, "x86_64-unknown-linux-gnu", "release", crate)
    else:
        raise ValueError(flavor)
    if not os.path.exists(b):
        raise Inconclusive("built binary missing: " + b)
    _built[key] = b
    return b


def _classify_exit(chk, pid, r, part, what, recs, replay):
    """Harness exit handling shared by every runner.  Returns True when the run completed."""
    done = any(x.get("k") == "done" for x in recs)
    if r["timed_out"]:
        chk.incon("%s: watchdog timeout after %.0fs (%s)" % (part, r["wall"], what))
        return False
    rc = r["rc"]
    if rc is not None and rc < 0 and -rc in CRASH_SIGNALS:
        # memory-corruption class signal while running the real code: a refuting event
        chk.violation("%s:crash:%s" % (pid, CRASH_SIGNALS[-rc]),
                      "%s: harness process died with %s running %s; last output: %s" % (
                          part, CRASH_SIGNALS[-rc], what, (r["out"][-600:] + r["err"][-900:])),
                      replay)
        return False
    if not done:
        chk.incon("%s: harness did not finish (rc=%s) %s: %s" % (part, rc, what, r["err"][-1200:]))
        return False
    return True


def run_native(chk, binary, prop, seed, count, kv=(), part="native", timeout=1800, env=None):
    cmd = [binary, prop, str(seed), str(count)] + list(kv)
    r = run(cmd, env=env_with(env), timeout=timeout)
    recs = parse_jsonl(r["out"])
    ingest_reports(chk, recs, part)
    ok = _classify_exit(chk, chk.pid, r, part, " ".join(cmd[1:]), recs, dict(cmd=cmd))
    return ok, recs, r


def run_many(chk, jobs, workers=None):
    """jobs: list of callables; run in a thread pool (each spawns a subprocess)."""
    workers = workers or common.NCPU
    with concurrent.futures.ThreadPoolExecutor(max_workers=workers) as ex:
        futs = [ex.submit(j) for j in jobs]
        return [f.result() for f in futs]


# ------------------------------------------------------------------------------ Miri
MIRI_ERR = re.compile(r"^error: (.*)$", re.M)


def miri_build(crate):
    """Compile once (cargo miri run with a no-op argument set) so shards do not race."""
    cdir = os.path.join(VERIF, crate)
    common.sync_lock(cdir)
    tdir = os.path.join(WORK, "target-%s-miri" % crate)
    r = run(["cargo", "+nightly", "miri", "run", "--offline", "--target-dir", tdir, "--", "noop", "0", "0"],
            cwd=cdir, env=env_with({"MIRIFLAGS": MIRIFLAGS}), timeout=3600)
    # the harness prints usage / unknown property and exits 64: fine, it compiled and started
    if r["timed_out"] or ("unknown property" not in r["err"] and "usage" not in r["err"] and r["rc"] not in (0, 64)):
        raise Inconclusive("miri build failed: %s" % r["err"][-3000:])
    return tdir


_miri_info = {}


def _dec(x):
    return bytes(x["Unix"]).decode(errors="replace") if isinstance(x, dict) else x


def miri_direct(crate):
    """cargo holds the build-directory lock for the whole `cargo miri run`, which serialises
    shards.  After one cargo-driven build we read the JSON stub cargo-miri leaves in place of
    the binary and call the `miri` driver ourselves (same arguments cargo-miri would pass)."""
    if crate in _miri_info:
        return _miri_info[crate]
    import json
    tdir = os.path.join(WORK, "target-%s-miri" % crate)
    stub = os.path.join(tdir, "miri", "x86_64-unknown-linux-gnu", "debug", crate)
    with open(stub) as f:
        j = json.load(f)["RunWith"]
    args = [a for a in j["args"] if not a.startswith("--error-format") and not a.startswith("--json")]
    cenv = {}
    for k, v in j["env"]:
        k, v = _dec(k), _dec(v)
        if k.startswith("CARGO_"):
            cenv[k] = v
    cwd = _dec(j["current_dir"])
    tc = run(["rustc", "+nightly", "--print", "sysroot"], check=True)["out"].strip()
    sysroot = run(["cargo", "+nightly", "miri", "setup", "--print-sysroot"], env=env_with(), check=True)["out"].strip().splitlines()[-1]
    cenv["MIRI_CWD"] = cwd
    cenv["LD_LIBRARY_PATH"] = os.path.join(tc, "lib")
    info = dict(miri=os.path.join(tc, "bin", "miri"), sysroot=sysroot, args=args, env=cenv, cwd=cwd)
    _miri_info[crate] = info
    return info


def run_miri(chk, crate, prop, seed, count, kv=(), part="miri", timeout=3000, flags="", ignore_leaks=False):
    info = miri_direct(crate)
    mf = MIRIFLAGS + (" " + flags if flags else "") + (" -Zmiri-ignore-leaks" if ignore_leaks else "")
    cmd = [info["miri"], "--sysroot", info["sysroot"]] + info["args"] + mf.split() + ["--", prop, str(seed), str(count)] + list(kv)
    r = run(cmd, cwd=info["cwd"], env=env_with(info["env"], drop=("MIRI_BE_RUSTC",)), timeout=timeout)
    recs = parse_jsonl(r["out"])
    ingest_reports(chk, recs, part)
    what = "miri %s %s %s %s [%s]" % (prop, seed, count, " ".join(kv), mf)
    short = dict(crate=crate, miriflags=mf, args=[prop, str(seed), str(count)] + list(kv))
    errs = [e for e in MIRI_ERR.findall(r["err"]) if not e.startswith("could not compile") and "process didn't exit successfully" not in e]
    if r["timed_out"]:
        chk.incon("%s: miri watchdog timeout (%s)" % (part, what))
        return False, recs, r
    ub = [e for e in errs if e.startswith("Undefined Behavior") or "memory leaked" in e or "data race" in e.lower()
          or "deadlock" in e.lower() or "abnormal termination" in e]
    unsupported = [e for e in errs if e.startswith("unsupported operation")]
    if ub:
        # signature = the error headline with addresses / alloc ids stripped
        head = re.sub(r"alloc\d+|0x[0-9a-f]+|\d+", "N", ub[0])[:160]
        ctx = r["err"][r["err"].find("error: " + ub[0]):][:2500]
        chk.violation("%s:miri:%s" % (chk.pid, head), "%s\n%s" % (what, ctx), short)
        return False, recs, r
    if unsupported:
        chk.incon("%s: miri unsupported operation: %s" % (part, unsupported[0][:300]))
        return False, recs, r
    if errs and not any(x.get("k") == "done" for x in recs):
        chk.incon("%s: miri failed: %s" % (part, errs[0][:400]))
        return False, recs, r
    ok = _classify_exit(chk, chk.pid, r, part, what, recs, short)
    return ok, recs, r


# ------------------------------------------------------------------------------ ASan / valgrind
ASAN_ERR = re.compile(r"==\d+==ERROR: (AddressSanitizer|LeakSanitizer): ([^\n]*)")


def run_asan(chk, binary, prop, seed, count, kv=(), part="asan", timeout=1800, leaks=True):
    cmd = [binary, prop, str(seed), str(count)] + list(kv)
    env = {"ASAN_OPTIONS": "detect_leaks=%d:halt_on_error=1:abort_on_error=0:exitcode=77:detect_stack_use_after_return=0" % (1 if leaks else 0),
           "LSAN_OPTIONS": "exitcode=78"}
    r = run(cmd, env=env_with(env), timeout=timeout)
    recs = parse_jsonl(r["out"])
    ingest_reports(chk, recs, part)
    m = ASAN_ERR.search(r["err"])
    if m:
        kind = re.sub(r"0x[0-9a-f]+|\d+", "N", m.group(2))[:80]
        frames = [l.strip() for l in r["err"].splitlines() if re.match(r"\s+#\d+ ", l)]
        first_repo = next((f for f in frames if "/repo/" in f or "cglue" in f), frames[0] if frames else "")
        first_repo = re.sub(r"0x[0-9a-f]+", "", first_repo)[:160]
        chk.violation("%s:asan:%s:%s" % (chk.pid, m.group(1), kind.split(" on ")[0].strip()),
                      "%s\n%s\nfirst in-repo frame: %s\n%s" % (" ".join(cmd[1:]), m.group(0), first_repo, "\n".join(frames[:14])),
                      dict(cmd=cmd, env=env))
        return False, recs, r
    ok = _classify_exit(chk, chk.pid, r, part, "asan " + " ".join(cmd[1:]), recs, dict(cmd=cmd))
    return ok, recs, r


VG_ERRSUM = re.compile(r"ERROR SUMMARY: (\d+) errors")


def run_valgrind(chk, binary, prop, seed, count, kv=(), part="valgrind", timeout=3000):
    cmd = ["valgrind", "--error-exitcode=79", "--leak-check=full", "--show-leak-kinds=definite,indirect",
           "--errors-for-leak-kinds=definite,indirect", "--num-callers=20", "-q",
           binary, prop, str(seed), str(count)] + list(kv)
    r = run(cmd, timeout=timeout)
    recs = parse_jsonl(r["out"])
    ingest_reports(chk, recs, part)
    if r["rc"] == 79 or re.search(r"==\d+== (Invalid|Conditional jump|Use of uninit|Mismatched|\d[\d,]* bytes in \d+ blocks are definitely)", r["err"]):
        first = next((l for l in r["err"].splitlines() if re.search(r"== (Invalid|Conditional|Use of|Mismatched|.*definitely lost)", l)), "")
        kind = re.sub(r"==\d+==|0x[0-9A-Fa-f]+|\d[\d,]*", "", first).strip()[:80]
        chk.violation("%s:valgrind:%s" % (chk.pid, kind), "%s\n%s" % (" ".join(cmd), r["err"][:3000]), dict(cmd=cmd))
        return False, recs, r
    ok = _classify_exit(chk, chk.pid, r, part, " ".join(cmd[-4:]), recs, dict(cmd=cmd))
    return ok, recs, r


def stats_of(recs):
    out = {}
    for r in recs:
        if r.get("k") == "stat":
            for k, v in r.items():
                if k != "k" and isinstance(v, (int, float)):
                    out[k] = out.get(k, 0) + v
    return out
