"""Shared orchestration for all checks: context, watchdog'd subprocesses, verdicts,
known-finding matching, evidence writing.  No third-party imports."""
import hashlib
import json
import os
import shutil
import signal
import subprocess
import sys
import threading
import time

VERIF = os.path.dirname(os.path.dirname(os.path.abspath(__file__)))
REPO = os.environ.get("VERIF_REPO", "/repo")
WORK = os.path.join(VERIF, ".work")
EVID = os.path.join(VERIF, "evidence")
REPLAY = os.path.join(VERIF, "replay")
NCPU = os.cpu_count() or 4

BASE_ENV = {
    "CARGO_NET_OFFLINE": "true",
    "CARGO_TERM_COLOR": "never",
    "RUST_BACKTRACE": "0",
}


class Inconclusive(Exception):
    """Harness/tool failure: never folded into held or violated."""


def env_with(extra=None, drop=()):
    e = dict(os.environ)
    e.update(BASE_ENV)
    # a stray RUSTFLAGS from the caller would silently change what we build
    for k in ("RUSTFLAGS", "MIRIFLAGS", "CARGO_TARGET_DIR", "RUSTC_WRAPPER"):
        e.pop(k, None)
    if extra:
        e.update(extra)
    for k in drop:
        e.pop(k, None)
    return e


def run(cmd, cwd=None, env=None, timeout=1800, stdin=None, check=False):
    """Run under a wall-clock watchdog.  Returns dict(rc, out, err, timed_out, wall)."""
    t0 = time.time()
    p = subprocess.Popen(
        cmd,
        cwd=cwd,
        env=env if env is not None else env_with(),
        stdin=subprocess.PIPE if stdin is not None else subprocess.DEVNULL,
        stdout=subprocess.PIPE,
        stderr=subprocess.PIPE,
        start_new_session=True,
        text=True,
        errors="replace",
    )
    timed_out = False
    try:
        out, err = p.communicate(stdin, timeout=timeout)
    except subprocess.TimeoutExpired:
        timed_out = True
        try:
            os.killpg(p.pid, signal.SIGKILL)
        except ProcessLookupError:
            pass
        out, err = p.communicate()
    r = dict(rc=p.returncode, out=out, err=err, timed_out=timed_out, wall=time.time() - t0,
             cmd=cmd if isinstance(cmd, str) else " ".join(cmd))
    if check and (timed_out or p.returncode != 0):
        raise Inconclusive("command failed (%s, rc=%s): %s\n%s" % (
            "timeout" if timed_out else "exit", p.returncode, r["cmd"], (err or out)[-4000:]))
    return r


def sync_lock(crate_dir):
    """Copy /repo/Cargo.lock into a harness workspace when the harness has none yet
    (pins every shared dependency to the versions the repository itself builds with)."""
    dst = os.path.join(crate_dir, "Cargo.lock")
    src = os.path.join(REPO, "Cargo.lock")
    if not os.path.exists(dst) and os.path.exists(src):
        shutil.copy(src, dst)


def cargo_build(crate_dir, target_name, args=(), toolchain=None, env=None, timeout=3600,
                profile_release=True, features=None, bins=None):
    """Build a harness crate against the *current* /repo tree.  Returns target dir."""
    sync_lock(crate_dir)
    tdir = os.path.join(WORK, "target-" + target_name)
    cmd = ["cargo"]
    if toolchain:
        cmd.append("+" + toolchain)
    cmd += ["build", "--offline", "--target-dir", tdir]
    if profile_release:
        cmd.append("--release")
    if features:
        cmd += ["--features", ",".join(features)]
    for b in bins or ():
        cmd += ["--bin", b]
    cmd += list(args)
    r = run(cmd, cwd=crate_dir, env=env_with(env), timeout=timeout)
    if r["timed_out"] or r["rc"] != 0:
        raise Inconclusive("build failed: %s\n%s" % (r["cmd"], r["err"][-6000:]))
    return tdir


def parse_jsonl(text):
    out = []
    for line in text.splitlines():
        line = line.strip()
        if line.startswith("{") and line.endswith("}"):
            try:
                out.append(json.loads(line))
            except ValueError:
                pass
    return out


def sha(s):
    return hashlib.sha256(s.encode() if isinstance(s, str) else s).hexdigest()


class Check:
    """Accumulates what one run of one property observed and turns it into
    evidence + exit status."""

    def __init__(self, pid, level, tier, seed):
        self.pid = pid
        self.level = level
        self.tier = tier
        self.seed = seed
        self.t0 = time.time()
        self.violations = []       # dict(signature, detail, replay)
        self.coverage = {"evaluations": 0, "distinct_nontrivial": 0, "rule": "", "samples": []}
        self.parts = {}            # name -> free-form per-part coverage
        self.assumptions = []
        self.inconclusive = []
        self.floors = []           # (name, observed, minimum)

    # ---- recording ----
    def add_eval(self, n, distinct=0):
        self.coverage["evaluations"] += int(n)
        self.coverage["distinct_nontrivial"] += int(distinct)

    def sample(self, s, cap=8):
        what = s.get("what") if isinstance(s, dict) else None
        same = sum(1 for x in self.coverage["samples"] if isinstance(x, dict) and x.get("what") == what)
        if len(self.coverage["samples"]) < cap and same < 2:
            self.coverage["samples"].append(s)

    def part(self, name, **kw):
        self.parts.setdefault(name, {}).update(kw)

    def floor(self, name, observed, minimum):
        self.floors.append((name, observed, minimum))

    def violation(self, signature, detail, replay_obj=None):
        self.violations.append(dict(signature=signature, detail=detail, replay_obj=replay_obj))

    def incon(self, reason):
        self.inconclusive.append(reason)

    # ---- finishing ----
    def finish(self):
        known = load_known().get(self.pid, [])
        known_sigs = {k["signature"]: k for k in known if k.get("status") == "open"}
        new, seen_known = [], {}
        for v in self.violations:
            if v["signature"] in known_sigs:
                seen_known.setdefault(v["signature"], []).append(v)
            else:
                new.append(v)
        for name, obs, minimum in self.floors:
            if obs < minimum:
                self.inconclusive.append("monitor '%s' observed %s < floor %s" % (name, obs, minimum))

        os.makedirs(EVID, exist_ok=True)
        cov = dict(self.coverage)
        cov["parts"] = self.parts
        cov["floors"] = [dict(name=n, observed=o, minimum=m) for n, o, m in self.floors]
        cov["known_findings_observed"] = {s: len(v) for s, v in seen_known.items()}
        if self.inconclusive:
            cov["inconclusive"] = self.inconclusive
        if self.level == "translation_validation":
            cov.setdefault("programs", cov["evaluations"])
            cov.setdefault("disagreements_checked", cov["evaluations"])
        if self.level == "other":
            cov.setdefault("explanation", cov.get("rule", ""))
        ev = dict(property_id=self.pid, tier=self.tier, seed=self.seed, level=self.level,
                  coverage=cov, assumptions=self.assumptions,
                  wall_s=round(time.time() - self.t0, 2), violations=len(new))
        with open(os.path.join(EVID, self.pid + ".json"), "w") as f:
            json.dump(ev, f, indent=1, default=str)
            f.write("\n")

        for sig, vs in sorted(seen_known.items()):
            print("KNOWN-FINDING: property=%s %s (%s; observed %d times this run)" % (
                self.pid, sig, known_sigs[sig].get("what", ""), len(vs)))
        if new:
            os.makedirs(REPLAY, exist_ok=True)
            shown = set()
            per_sig = {}
            for v in new:
                per_sig[v["signature"]] = per_sig.get(v["signature"], 0) + 1
                if per_sig[v["signature"]] > 2:
                    continue
                h = sha(v["signature"] + json.dumps(v.get("replay_obj"), sort_keys=True, default=str))[:12]
                path = os.path.join(REPLAY, "%s-%s.json" % (self.pid, h))
                with open(path, "w") as f:
                    json.dump(dict(property=self.pid, seed=self.seed, tier=self.tier,
                                   signature=v["signature"], detail=v["detail"],
                                   replay=v.get("replay_obj")), f, indent=1, default=str)
                if v["signature"] in shown and len(shown) > 20:
                    continue
                shown.add(v["signature"])
                print("VIOLATION property=%s replay=%s" % (self.pid, path))
                print("  signature: %s" % v["signature"])
                print("  detail: %s" % str(v["detail"])[:1500])
            return 1
        if self.inconclusive:
            for r in self.inconclusive:
                print("INCONCLUSIVE property=%s reason=%s" % (self.pid, r))
            return 2
        print("OK property=%s tier=%s seed=%d evaluations=%d distinct=%d wall=%.1fs" % (
            self.pid, self.tier, self.seed, cov["evaluations"], cov["distinct_nontrivial"],
            time.time() - self.t0))
        return 0


_known = None


def load_known():
    global _known
    if _known is None:
        p = os.path.join(VERIF, "known_findings.json")
        _known = {}
        if os.path.exists(p):
            with open(p) as f:
                data = json.load(f)
            for k in data.get("findings", []):
                _known.setdefault(k["property"], []).append(k)
    return _known


_ingest_lock = threading.Lock()


def ingest_reports(chk, recs, part):
    with _ingest_lock:
        return _ingest_reports(chk, recs, part)


def _ingest_reports(chk, recs, part):
    """Fold the JSON-lines a Rust/C harness printed into the Check.
    Record kinds: violation{sig,detail,replay}, stat{...}, sample{...}."""
    nviol = 0
    for r in recs:
        k = r.get("k")
        if k == "violation":
            nviol += 1
            chk.violation(r.get("sig", "unknown"), r.get("detail", ""), r.get("replay"))
        elif k == "stat":
            d = {kk: vv for kk, vv in r.items() if kk != "k"}
            if d.get("alloc_table_saturated"):
                # the harness leaked so much that its allocator table filled up: whatever it reported stands,
                # but "no allocator violation" from this process means nothing
                chk.incon("%s: the tracking allocator's table saturated (unbounded leak in the workload); allocator accounting of this process is inconclusive" % part)
            cur = chk.parts.setdefault(part, {})
            for kk, vv in d.items():
                if isinstance(vv, (int, float)) and isinstance(cur.get(kk), (int, float)):
                    if kk.startswith("max_") or kk.endswith("_depth") or kk in ("alloc_tracking_active", "allocator_accounting"):
                        cur[kk] = max(cur[kk], vv)
                    else:
                        cur[kk] += vv
                else:
                    cur[kk] = vv
        elif k == "sample":
            chk.sample({kk: vv for kk, vv in r.items() if kk != "k"})
    return nviol
