#!/bin/bash
# Regression lane (not a registered command): runs `seedtest check` for seeded mutants against private clones of /repo and /verif that are
# bind-mounted over the real paths inside a mount namespace, so that several lanes can run at once and /repo itself is never touched.
# usage: lane.sh <lane> <seeded-dir-names...> ; runs `seedtest check` for each inside a private mount namespace
L=$1; shift
mkdir -p /tmp/lane$L
if [ ! -d /tmp/lane$L/repo ]; then git clone -q /repo /tmp/lane$L/repo; fi
if [ ! -d /tmp/lane$L/verif ]; then git clone -q /verif /tmp/lane$L/verif; fi
git -C /tmp/lane$L/repo fetch -q origin && git -C /tmp/lane$L/repo checkout -q --detach origin/HEAD 2>/dev/null || git -C /tmp/lane$L/repo pull -q
git -C /tmp/lane$L/verif checkout -q -- . ; git -C /tmp/lane$L/verif pull -q 2>/dev/null
LIST="$*"
unshare -m bash -c "
mount --bind /tmp/lane$L/repo /repo && mount --bind /tmp/lane$L/verif /verif && cd /verif || exit 9
for m in $LIST; do
  r=\$(python3 lib/seedtest.py check seeded/\$m 2>&1 | grep -E 'CAUGHT|MISSED|INCONCLUSIVE|not clean|does not apply' | head -1)
  echo \"\$m \$r\"
done
echo LANEDONE
"
