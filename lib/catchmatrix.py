#!/usr/bin/env python3
"""Regenerates the catch matrix in DESIGN.md (between the CATCH-MATRIX markers) from seeded/*/meta.json."""
import glob
import json
import os
import re

VERIF = os.path.dirname(os.path.dirname(os.path.abspath(__file__)))


def main():
    rows = []
    for d in sorted(glob.glob(os.path.join(VERIF, "seeded", "*-m*"))):
        m = json.load(open(os.path.join(d, "meta.json")))
        name = os.path.basename(d)
        summ = re.sub(r"\s+", " ", (m.get("summary") or "")).strip()
        trig = re.sub(r"\s+", " ", (m.get("needs_to_manifest") or "")).strip()
        oc = m.get("our_checks") or {}
        cells = []
        for cid, r in sorted(oc.items()):
            sigs = sorted({l.split("signature:")[1].strip() for l in r.get("lines", []) if "signature:" in l})
            cells.append("%s: %s%s" % (cid, r.get("verdict"), (" (" + ", ".join("`%s`" % s[:70] for s in sigs[:3]) + ")") if sigs else ""))
        hist = m.get("history") or ""
        rows.append("| %s | %s | %s | %s%s |" % (name, summ[:260].replace("|", "/"), trig[:200].replace("|", "/"), "; ".join(cells) or "not run", (" — " + hist) if hist else ""))
    table = "| mutant | change (sub-agent's summary, truncated) | needs | our quick check |\n|---|---|---|---|\n" + "\n".join(rows) + "\n"
    p = os.path.join(VERIF, "DESIGN.md")
    s = open(p).read()
    a, b = "<!-- CATCH-MATRIX-BEGIN -->", "<!-- CATCH-MATRIX-END -->"
    if a in s:
        s = s[:s.index(a) + len(a)] + "\n" + table + s[s.index(b):]
        open(p, "w").write(s)
    print(table[:3000])


if __name__ == "__main__":
    main()
