#!/usr/bin/env python3
import os
import sys

sys.path.insert(0, os.path.dirname(os.path.abspath(__file__)))
import common  # noqa: E402
import rtrun  # noqa: E402


def main():
    os.makedirs(common.WORK, exist_ok=True)
    ok = True
    for crate, flavors in (("rt", ("release", "debug")),):
        for fl in flavors:
            try:
                rtrun.build(crate, fl)
                print("built", crate, fl)
            except common.Inconclusive as e:
                ok = False
                print("setup: build failed", crate, fl, str(e)[:2000])
        try:
            rtrun.miri_build(crate)
            print("built", crate, "miri")
        except common.Inconclusive as e:
            ok = False
            print("setup: miri build failed", crate, str(e)[:2000])
    try:
        t = common.cargo_build(os.path.join(common.VERIF, "expander"), "expander")
        print("built expander")
    except common.Inconclusive as e:
        ok = False
        print("setup: expander build failed", str(e)[:1500])
    # warm every other build cache (generated crates, module matrix, C drivers) by running each
    # check once; verdicts are irrelevant here, only the compiled artefacts under .work/
    import json
    import subprocess
    with open(os.path.join(common.VERIF, "MANIFEST.json")) as f:
        ids = [c["property_id"] for c in json.load(f)["checks"]]
    evid = os.path.join(common.VERIF, "evidence")
    saved = {}
    for fn in os.listdir(evid) if os.path.isdir(evid) else []:
        with open(os.path.join(evid, fn)) as f:
            saved[fn] = f.read()
    for i in ids:
        r = subprocess.run([os.path.join(common.VERIF, "check"), i, "--tier", "quick"], cwd=common.VERIF, capture_output=True, text=True)
        print("warm-up", i, "rc", r.returncode)
    # leave the committed evidence files as they were
    for fn, text in saved.items():
        with open(os.path.join(evid, fn), "w") as f:
            f.write(text)
    subprocess.run("rm -f replay/*.json", shell=True, cwd=common.VERIF)
    return 0 if ok else 1


if __name__ == "__main__":
    sys.exit(main())
