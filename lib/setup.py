#!/usr/bin/env python3
import os
import sys

sys.path.insert(0, os.path.dirname(os.path.abspath(__file__)))
import common  # noqa: E402
import rtrun  # noqa: E402


def main():
    os.makedirs(common.WORK, exist_ok=True)
    ok = True
    for crate, flavors in (("rt", ("release", "debug")),):
        for fl in flavors:
            try:
                rtrun.build(crate, fl)
                print("built", crate, fl)
            except common.Inconclusive as e:
                ok = False
                print("setup: build failed", crate, fl, str(e)[:2000])
        try:
            rtrun.miri_build(crate)
            print("built", crate, "miri")
        except common.Inconclusive as e:
            ok = False
            print("setup: miri build failed", crate, str(e)[:2000])
    try:
        t = common.cargo_build(os.path.join(common.VERIF, "expander"), "expander")
        print("built expander")
    except common.Inconclusive as e:
        ok = False
        print("setup: expander build failed", str(e)[:1500])
    try:
        import setup_more
        ok = setup_more.main() and ok
    except ImportError:
        pass
    return 0 if ok else 1


if __name__ == "__main__":
    sys.exit(main())
