"""Drives cglue-bindgen (unmodified, rebuilt from /repo) with a fake `cbindgen`/`rustup` first
on PATH that prints an emulated header; compiles the result; generates, builds and runs the
C driver; evaluates the call log (C17) and the header-level conditions (C18)."""
import hashlib
import os
import re
import sys

import common
from common import Inconclusive, WORK, VERIF

sys.path.insert(0, os.path.join(VERIF, "bindgen"))
import emit      # noqa: E402
import driver    # noqa: E402
import emit_cpp    # noqa: E402
import driver_cpp  # noqa: E402

FAKEBIN = os.path.join(VERIF, "bindgen", "fakebin")


def tool():
    t = os.path.join(WORK, "target-bindgen")
    r = common.run(["cargo", "build", "--offline", "-p", "cglue-bindgen", "--release", "--target-dir", t], cwd=common.REPO, timeout=3000)
    b = os.path.join(t, "release", "cglue-bindgen")
    if r["rc"] != 0 or not os.path.exists(b):
        raise Inconclusive("cglue-bindgen does not build: " + r["err"][-3000:])
    return b


def run_tool(binary, wdir, raw_text, config=None, pre_args=("+nightly",), post_args=None, out_name="out.h", via_stdout=False):
    os.makedirs(wdir, exist_ok=True)
    raw = os.path.join(wdir, "raw.h")
    with open(raw, "w") as f:
        f.write(raw_text)
    log = os.path.join(wdir, "argv.log")
    if os.path.exists(log):
        os.remove(log)
    pre = list(pre_args)
    if config is not None:
        cfg = os.path.join(wdir, "cglue.toml")
        with open(cfg, "w") as f:
            f.write("".join('%s = "%s"\n' % (k, v) for k, v in config.items()))
        pre += ["-c", cfg]
    out = os.path.join(wdir, out_name)
    if os.path.exists(out):
        os.remove(out)
    post = list(post_args) if post_args is not None else ["--config", "cb.toml", "--crate", "api", "--output", out, "-l", "C"]
    env = common.env_with({"PATH": FAKEBIN + ":" + os.environ.get("PATH", ""), "FAKE_CBINDGEN_HEADER": raw, "FAKE_CBINDGEN_LOG": log})
    r = common.run([binary] + pre + ["--"] + post, env=env, timeout=300, cwd=wdir)
    argv = open(log).read() if os.path.exists(log) else ""
    text = None
    if os.path.exists(out):
        with open(out) as f:
            text = f.read()
    return dict(rc=r["rc"], err=r["err"], stdout=r["out"], out_path=out, text=text, argv=argv)


def compile_check(path, wdir):
    res = {}
    tu = os.path.join(wdir, "tu.c")
    with open(tu, "w") as f:
        f.write('#include "%s"\nint main(void) { return 0; }\n' % os.path.basename(path))
    for cc, flags in (("gcc", ["-std=c99"]), ("clang", ["-std=c99"])):
        r = common.run([cc] + flags + ["-fsyntax-only", "-I", wdir, tu], timeout=120)
        res[cc] = (r["rc"], r["err"][:1500])
    return res


def run_tool_cpp(binary, wdir, raw_text, config=None):
    out = os.path.join(wdir, "out.hpp")
    return run_tool(binary, wdir, raw_text, config=config, out_name="out.hpp", post_args=["--config", "cb.toml", "--crate", "api", "--output", out, "-l", "C++"])


def compile_check_cpp(path, wdir, thorough=False):
    """the processed header alone, first include of a TU, C++11 (the standard the tool documents)"""
    res = {}
    tu = os.path.join(wdir, "tu.cpp")
    with open(tu, "w") as f:
        f.write('#include "%s"\nint main() { return 0; }\n' % os.path.basename(path))
    comps = [("g++", ["-std=c++11"]), ("clang++", ["-std=c++11"])] + ([("g++", ["-std=c++17"])] if thorough else [])
    for cc, flags in comps:
        r = common.run([cc] + flags + ["-fsyntax-only", "-w", "-I", wdir, tu], timeout=180)
        res[cc + flags[0]] = (r["rc"], r["err"][:1500])
    return res


CALL_RE = re.compile(r"CALL w=(\w+) root=(\d+) known_params=(\d) nlog=(\d+)(.*) ret_ok=(-?\d+) box_drops=(\d+) arc_clones=(\d+) arc_drops=(\d+) clone_seq=(\d+) drop_first=(\d+) drop_last=(\d+)(?: after_box=(\d+) after_clones=(\d+) after_arc=(\d+))?(?: box_seq=(\d+))?")


def parse_sizes(text):
    return {int(m.group(1)): (int(m.group(2)), int(m.group(3))) for m in re.finditer(r"^SIZEOF root=(\d+) obj=(\d+) cont=(\d+)$", text, re.M)}


def judge_sizes(em, model, sizes, mode):
    """the processed header must describe objects of exactly the size the Rust side gives them"""
    viol = []
    n = 0
    for ri, (obj, cont) in sorted(sizes.items()):
        r = em.roots[ri]
        want = emit.rust_sizes(model, r["kind"], r["name"], r["inst"], r["ctx"])
        n += 1
        if (obj, cont) != want:
            viol.append(("header-object-size", "%s header: %s %s (%s, %s) is %d bytes with a %d-byte container; the Rust definitions give %d / %d" % (
                mode, r["kind"], r["name"], r["inst"], r["ctx"] or "NoContext", obj, cont, want[0], want[1])))
    return viol, n


def judge_helpers(text):
    """(violations, number of helper cases) from the HELPER lines of the C driver"""
    viol, n = [], 0
    for m in re.finditer(r"^HELPER name=(\w+) ty=(\w+) n=(\d+) ok=(\d)(.*)$", text, re.M):
        n += 1
        if m.group(4) != "1":
            viol.append(("header-helper:%s" % m.group(1), "%s for %s with %s items does not deliver what the Rust side fed it%s" % (m.group(1), m.group(2), m.group(3), m.group(5))))
    return viol, n


def parse_calls(text):
    calls = []
    for line in text.splitlines():
        m = CALL_RE.match(line)
        if m:
            recs = [tuple(int(v) for v in t) for t in re.findall(r"\[root=(\d+) trait=(\d+) slot=(\d+) cont_ok=(\d+) args_ok=(\d+) seq=(\d+)\]", m.group(5))]
            c = dict(w=m.group(1), root=int(m.group(2)), known=int(m.group(3)), nlog=int(m.group(4)), recs=recs, ret_ok=int(m.group(6)),
                     box_drops=int(m.group(7)), arc_clones=int(m.group(8)), arc_drops=int(m.group(9)), clone_seq=int(m.group(10)), drop_first=int(m.group(11)), drop_last=int(m.group(12)))
            if m.group(13) is not None:
                c.update(after_box=int(m.group(13)), after_clones=int(m.group(14)), after_arc=int(m.group(15)))
            if m.group(16) is not None:
                c["box_seq"] = int(m.group(16))
            calls.append(c)
    return calls


def cpp_error_class(err):
    """stable class of a C++ compile failure (for signatures): what the first error is about"""
    first = next((l for l in err.splitlines() if "error:" in l), "")
    msg = first.split("error:", 1)[1].strip() if "error:" in first else "?"
    if "incomplete type" in msg and ("NoContext" in err[:err.find(first) + 2000] or "context" in msg):
        return "context-member-of-incomplete-type-NoContext", msg
    if "no type named" in msg and "Context" in msg and "Container<" in msg:
        return "group-container-without-Context-typedef", msg
    if "is not a class template" in msg and "CGlueTraitObj" in msg:
        return "CGlueTraitObj-specialised-but-never-declared", msg
    msg = re.sub(r"\d+", "N", msg)
    return "other", msg


def drive_cpp(wdir, em, model, out_path, header_text, compilers=(("g++", "-std=c++11"),)):
    """one driver per root type and compiler; returns dict(calls=[...], failures=[(root index, class, message)], roots_run)"""
    calls, failures, ran = [], [], 0
    sizes = {}
    for ri, r in enumerate(em.roots):
        src, n = driver_cpp.gen_root_driver(os.path.basename(out_path), em, model, header_text, ri)
        dp = os.path.join(wdir, "drv%d.cpp" % ri)
        with open(dp, "w") as f:
            f.write(src)
        for ci, (cc, std) in enumerate(compilers):
            exe = os.path.join(wdir, "drv%d_%d" % (ri, ci))
            b = common.run([cc, std, "-g", "-O0", "-w", "-fsanitize=address,undefined", "-fno-sanitize-recover=undefined", "-I", wdir, "-o", exe, dp], timeout=300)
            if b["rc"] != 0:
                cls, msg = cpp_error_class(b["err"])
                failures.append((ri, "compile:" + cls, msg[:300]))
                continue
            x = common.run([exe], env=common.env_with({"ASAN_OPTIONS": "detect_leaks=0:halt_on_error=1:exitcode=77"}), timeout=120)
            if "DONE calls=" not in x["out"]:
                m = re.search(r"ERROR: AddressSanitizer: ([^\n]*)|runtime error: ([^\n]*)", x["err"])
                failures.append((ri, "crash", (m.group(0) if m else x["err"][:300])))
                continue
            if ci == 0:
                calls += parse_calls(x["out"])
                sizes.update(parse_sizes(x["out"]))
            ran += 1
    return dict(calls=calls, failures=failures, roots_run=ran, done=True, wrappers=[], sizes=sizes)


def resolve_generic_names(em, header_text):
    """roots the emulated cbindgen output only contains in context-generic (`*_Context`) form exist in the processed header under the names the
    tool gave them.  Groups keep cbindgen's own mangling; for single-trait objects only the `<Trait>Base_<instance>_<context>` typedef is a
    public name, the structure behind it is looked up through that typedef.  Returns the roots the processed header lacks."""
    import emit as _emit
    missing = []
    for r in em.roots:
        if r.get("emitted", True):
            continue
        if r["kind"] == "group":
            if not re.search(r"typedef struct %s \{" % re.escape(r["struct"]), header_text):
                missing.append(r)
            continue
        alias = "%sBase_%s" % (r["name"], _emit.mangle_raw(_emit.INST[r["inst"]]).rstrip("_") + "_____" + _emit.ctx_c(r["ctx"]))
        m = re.search(r"typedef struct (\S+) %s;" % re.escape(alias), header_text)
        b = m and re.search(r"typedef struct %s \{\n\s*const struct (\S+) \*vtbl;\n\s*struct (\S+) container;\n\} " % re.escape(m.group(1)), header_text)
        if not b:
            missing.append(r)
            continue
        r["struct"], r["container"], r["vtables"] = m.group(1), b.group(2), [(r["name"], "vtbl", b.group(1))]
    return missing


def judge_members(em, model, header_text):
    """member list of every object's container in the processed C header against the Rust definition: instance, context unless it is the
    zero-sized NoContext, then one temporary-storage member per trait that has borrowed wrapped returns.  Works on headers that do not compile."""
    resolve_generic_names(em, header_text)
    viol, n = [], 0
    for r in em.roots:
        m = re.search(r"typedef struct %s \{\n(.*?)\n\} %s;" % (re.escape(r["container"]), re.escape(r["container"])), header_text, re.S)
        if not m:
            continue
        names = [re.search(r"(\w+)$", d.strip()).group(1) for d in m.group(1).split(";") if re.search(r"(\w+)$", d.strip())]
        want = ["instance"] + (["context"] if r["ctx"] == "Arc" else [])
        if r["kind"] == "group":
            mand, opt = model.groups[r["name"]]
            want += ["ret_tmp_" + t.lower() for t in sorted(mand) + sorted(opt) if model.traits[t].rettmp_fields]
        elif model.traits[r["name"]].rettmp_fields:
            want += ["ret_tmp"]
        n += 1
        if names != want:
            viol.append(("container-members", "%s %s (%s, %s): struct %s has members %s, the Rust container has %s" % (r["kind"], r["name"], r["inst"], r["ctx"] or "NoContext", r["container"], names, want)))
    return viol, n


def drive(wdir, em, model, out_path, header_text):
    missing = resolve_generic_names(em, header_text)
    if missing:
        return dict(build_error="the processed header has no structure for: " + ", ".join("%s %s (%s, %s)" % (r["kind"], r["name"], r["inst"], r["ctx"] or "NoContext") for r in missing),
                    wrappers=[], calls=[], missing=missing)
    src, wrappers = driver.gen_driver(os.path.basename(out_path), em, model, header_text)
    dp = os.path.join(wdir, "driver.c")
    with open(dp, "w") as f:
        f.write(src)
    exe = os.path.join(wdir, "driver")
    r = common.run(["gcc", "-std=gnu11", "-g", "-O0", "-w", "-fsanitize=address,undefined", "-fno-sanitize-recover=undefined", "-I", wdir, "-o", exe, dp], timeout=300)
    if r["rc"] != 0:
        return dict(build_error=r["err"][:3000], wrappers=wrappers, calls=[])
    x = common.run([exe], env=common.env_with({"ASAN_OPTIONS": "detect_leaks=0:halt_on_error=1:exitcode=77"}), timeout=120)
    calls = parse_calls(x["out"])
    return dict(run_rc=x["rc"], run_err=x["err"][:2000], done="DONE calls=" in x["out"], wrappers=wrappers, calls=calls, sizes=parse_sizes(x["out"]), helpers=judge_helpers(x["out"]))


def judge(em, model, res, only_roots=None):
    """C17 oracle over the call log.  returns (violations [(sig, detail)], stats).
    only_roots: restrict the completeness clauses to these root indices (C++: roots whose driver ran)"""
    viol = []
    covered = set()
    roots = em.roots
    for c in res["calls"]:
        r = roots[c["root"]]
        what = "wrapper %s on %s %s (%s, %s)" % (c["w"], r["kind"], r["name"], r["inst"], r["ctx"] or "NoContext")
        is_drop = c["w"] == "drop" or c["w"].endswith("_drop")
        # a trait method may itself be called "..._drop": only treat as helper when no slot was reached
        if is_drop and c["nlog"] == 0:
            wb = 1 if r["inst"] == "Box" else 0
            wa = 1 if r["ctx"] == "Arc" else 0
            if c["box_drops"] != wb or c["arc_drops"] != wa or c["arc_clones"] != 0:
                viol.append(("C17:drop-helper-release-count", "%s: instance released %d times (want %d), context released %d times (want %d), cloned %d times" % (what, c["box_drops"], wb, c["arc_drops"], wa, c["arc_clones"])))
            elif wb and wa and "box_seq" in c and not (c["box_seq"] < c["drop_first"]):
                # the context is what keeps the code of the instance's destructor loaded: it must go last
                viol.append(("C17:drop-helper-releases-context-before-instance", "%s: context released at step %d, instance at step %d" % (what, c["drop_first"], c["box_seq"])))
            continue
        if c["nlog"] != 1:
            viol.append(("C17:wrapper-call-count", "%s reached %d vtable entries (want exactly 1)" % (what, c["nlog"])))
            continue
        root, ti, si, cont_ok, args_ok, seq = c["recs"][0]
        tname = r["vtables"][ti][0] if ti < len(r["vtables"]) else "?"
        if root != c["root"]:
            viol.append(("C17:wrong-vtable", "%s invoked an entry of another object's vtable (root %d)" % (what, root)))
            continue
        m = model.traits[tname].methods[si]
        covered.add((c["root"], ti, si))
        if not c["w"].endswith(m.name):
            viol.append(("C17:wrong-slot", "%s invoked entry %s::%s" % (what, tname, m.name)))
        if not cont_ok:
            viol.append(("C17:wrong-container", "%s did not pass the object's own container" % what))
        if c["known"] and not args_ok:
            viol.append(("C17:arguments-altered", "%s: entry %s::%s did not receive the sentinel arguments in order" % (what, tname, m.name)))
        if c["ret_ok"] == 0:
            viol.append(("C17:result-altered", "%s did not return the entry's result" % what))
        if m.recv == "own":
            if r["ctx"] == "Arc":
                # callee releases the container's context; the wrapper must hold one clone across the call and release it after
                if c["arc_clones"] != 1 or c["arc_drops"] != 2 or not (c["clone_seq"] < seq < c["drop_last"]):
                    viol.append(("C17:consuming-context-guard", "%s: context cloned %d times, released %d times (want 1 clone before the call and its release after; clone@%d call@%d last release@%d)" % (what, c["arc_clones"], c["arc_drops"], c["clone_seq"], seq, c["drop_last"])))
            if c["box_drops"] != (1 if r["inst"] == "Box" else 0):
                viol.append(("C17:consuming-instance-release", "%s: instance released %d times" % (what, c["box_drops"])))
            if "after_box" in c and (c["after_box"] != c["box_drops"] or c["after_arc"] != c["arc_drops"] or c["after_clones"] != c["arc_clones"]):
                # C++: the moved-from object is destroyed afterwards; that must not release anything again
                viol.append(("C17:consumed-object-released-again", "%s: destroying the consumed object changed the counts: instance %d->%d, context %d->%d" % (what, c["box_drops"], c["after_box"], c["arc_drops"], c["after_arc"])))
        else:
            if c["box_drops"] or c["arc_drops"] or c["arc_clones"]:
                viol.append(("C17:borrowing-wrapper-touched-ownership", "%s: box drops %d, context clones %d, drops %d" % (what, c["box_drops"], c["arc_clones"], c["arc_drops"])))
    allslots = set()
    for ri, r in enumerate(roots):
        if only_roots is not None and ri not in only_roots:
            continue
        for ti, (tname, _, _) in enumerate(r["vtables"]):
            for si, m in enumerate(model.traits[tname].methods):
                if m.ret == "CONT" and r["inst"] != "Box":
                    continue    # `-> Self` entries only exist on boxed objects (their slot is never filled elsewhere)
                allslots.add((ri, ti, si))
    for (ri, ti, si) in sorted(allslots - covered):
        r = roots[ri]
        tname = r["vtables"][ti][0]
        viol.append(("C17:entry-without-wrapper", "no wrapper reaches %s::%s of %s %s (%s, %s)" % (tname, model.traits[tname].methods[si].name, r["kind"], r["name"], r["inst"], r["ctx"] or "NoContext")))
    # drop helper per root
    for ri, r in enumerate(roots):
        if only_roots is not None and ri not in only_roots:
            continue
        if not any((c["w"] == "drop" or c["w"].endswith("_drop")) and c["root"] == ri and c["nlog"] == 0 for c in res["calls"]):
            viol.append(("C17:no-drop-helper", "no drop helper for %s %s (%s, %s)" % (r["kind"], r["name"], r["inst"], r["ctx"] or "NoContext")))
    return viol, dict(calls=len(res["calls"]), slots=len(allslots), slots_covered=len(allslots & covered), wrappers=len(res["wrappers"]))


def helpers_step(chk, pid):
    """callbacks and iterators as a C user builds them with the helpers of the published header
    (COLLECT_CB, COLLECT_CB_INTO_ARR, COUNT_CB, BUF_ITER_SPEC), driven the way the Rust side drives them"""
    binary = tool()
    n = 0
    for name, model in [("plugin-api", emit.plugin_api_model())] + [("h%d" % i, emit.random_model(chk.seed * 100 + i)) for i in range(2 if chk.tier == "quick" else 12)]:
        w = os.path.join(WORK, pid.lower() + "hdr", chk.tier, name)
        em = emit.emit(model)
        r = run_tool(binary, w, em.text, config=None)
        if r["rc"] != 0 or not r["text"]:
            chk.incon("cglue-bindgen failed on %s: %s" % (name, r["err"][-300:]))
            continue
        res = drive(w, em, model, r["out_path"], r["text"])
        hv, k = res.get("helpers", ([], 0))
        n += k
        for sig, d in hv[:2]:
            chk.violation(pid + ":" + sig, "header of %s: %s" % (name, d), dict(model=name))
    chk.part("published-header-helpers", helper_cases=n)
    chk.floor("header helper cases", n, 50)
    return n




def helpers_step_cpp(chk, pid):
    """the C++ bridges of the published header as the examples use them (range-for over a CIterator, CPPIterator over a vector, callbacks made
    from a vector pointer and from a lambda, slices from strings): bindgen/helpers.cpp against the processed plugin-api header, C++14"""
    import emit_cpp
    binary = tool()
    m, em = emit_cpp.plugin_api_cpp()
    w = os.path.join(WORK, pid.lower() + "hdr", chk.tier, "plugin-api-cpp")
    r = run_tool_cpp(binary, w, em.text, config=None)
    if r["rc"] != 0 or not r["text"]:
        chk.incon("cglue-bindgen (C++) failed on plugin-api: %s" % r["err"][-300:])
        return 0
    src = os.path.join(VERIF, "bindgen", "helpers.cpp")
    n = 0
    for cc in (("g++", "clang++") if chk.tier != "quick" else ("g++",)):
        exe = os.path.join(w, "helpers_" + cc.replace("+", "p"))
        # clang's -fsanitize=function flags every call through the type-erased `bool (*)(void *, F)` slot of Callback (the header casts
        # `bool (*)(Container *, F)` to it by design, as the C helpers do): a policy about C++ function-pointer types, not about what C15/C16 state
        extra = ["-fno-sanitize=function"] if cc == "clang++" else []
        b = common.run([cc, "-std=c++14", "-w", "-g", "-O0", "-fsanitize=address,undefined", "-fno-sanitize-recover=undefined"] + extra + ["-I", w, "-o", exe, src], timeout=300)
        if b["rc"] != 0:
            chk.violation(pid + ":cpp-helpers-do-not-compile", "%s -std=c++14 rejects the documented uses of the header's C++ bridges: %s" % (cc, b["err"][:600]), dict(compiler=cc))
            continue
        x = common.run([exe], env=common.env_with({"ASAN_OPTIONS": "detect_leaks=0:halt_on_error=1:exitcode=77"}), timeout=120)
        m_ = re.search(r"HELPERS cases=(\d+) violations=(\d+)", x["out"])
        if not m_:
            mm = re.search(r"ERROR: AddressSanitizer: ([^\n]*)|runtime error: ([^\n]*)", x["err"])
            chk.violation(pid + ":cpp-helper-crash", "helpers driver (%s) did not finish: %s" % (cc, mm.group(0) if mm else x["err"][:300]), dict(compiler=cc))
            continue
        n += int(m_.group(1))
        seen = set()
        for h in re.finditer(r"^HELPER name=(\S+) ok=0 detail=(.*)$", x["out"], re.M):
            if h.group(1) not in seen:
                seen.add(h.group(1))
                chk.violation(pid + ":cpp-helper:" + h.group(1), "%s (%s)" % (h.group(2), cc), dict(compiler=cc, helper=h.group(1)))
    chk.part("published-header-helpers-cpp", helper_cases=n)
    chk.floor("C++ header helper cases", n, 60)
    return n
