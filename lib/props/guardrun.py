"""C07 last clause: consuming calls keep the context alive until control is back in the caller
(backtrace oracle in /verif/guard, built unoptimised so that wrapper frames are real frames)."""
import os

import common
import gluerun
from common import VERIF


def run(chk):
    t = common.cargo_build(os.path.join(VERIF, "guard"), "guard", profile_release=False)
    b = os.path.join(t, "debug", "guard")
    gluerun.run_bin(chk, [b], "consuming-call-guard", ("C07:",), env={"RUST_BACKTRACE": "1"})
    p = chk.parts.get("consuming-call-guard", {})
    chk.floor("consuming-call guard cases", int(p.get("guard_cases", 0)), 8)
    chk.floor("backtrace oracle canary (wrapper frame recognised)", int(p.get("canary_wrapper_frame_seen", 0)), 1)
