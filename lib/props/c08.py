"""C08 — group casts succeed exactly when the requested traits are present."""
from props import glueprops
from gluerun import SIGMAP

LEVEL = "exploration"


def run(chk, replay=None):
    h = glueprops.hist_steps(chk, SIGMAP["C08"])
    st = h["model_stats"]
    chk.coverage["evaluations"] = st["casts_ok"] + st["casts_fail"]
    chk.coverage["distinct_nontrivial"] = h["exhaustive_cast_programs"]
    chk.coverage["exhaustive"] = True
    chk.coverage["rule"] = ("exhaustive: group H (mandatory GA; optional Clone, GB, GZ) and group Q (mandatory RA; optional aliased generic instantiations QT<u64>=Abe, QT<u8>=Zed and "
                            "plain QP, Qa - alias order != raw identifier order) x every enabled set x every requested subset x {check,as_ref,as_mut,cast,into} x {Box,Mut,Ref}, "
                            "restricted to the combinations cglue accepts at compile time (Clone needs Box; &mut-method traits need Box/Mut); every site is a literal macro "
                            "invocation followed by calls on the mandatory and each requested trait (event log gives instance and method), upcast + re-check of every optional trait, "
                            "drop accounting; plus casts inside random lifecycle programs. distinct = exhaustive cast sites")
    chk.floor("cast sites", h["exhaustive_cast_programs"], 3000)
    chk.floor("successful casts", st["casts_ok"], 1000)
    chk.floor("failing casts", st["casts_fail"], 1000)
