"""C08 — group casts succeed exactly when the requested traits are present."""
import re

from common import Inconclusive
from props import glueprops
from gluerun import SIGMAP

LEVEL = "exploration"


def run(chk, replay=None):
    try:
        h = glueprops.hist_steps(chk, SIGMAP["C08"])
    except Inconclusive as e:
        # every generated cast site requests a subset of the group's optional traits, which the cast macros document as castable: when the only thing
        # the compiler rejects is the method the cast macro expands to, the cast was refused at compile time although the traits are there
        m = re.search(r"no method named `((?:check|cast|as_ref|as_mut|into)_impl_\w+)` found", str(e))
        if m and chk.pid == "C08":
            chk.violation("C08:cast-site-rejected-by-compiler", "a cast to traits the group has does not compile: the cast macro expands to `%s`, which the group does not define" % m.group(1), dict(method=m.group(1)))
            chk.coverage.update(evaluations=0, distinct_nontrivial=0, rule="build of the cast programs failed in the cast macros themselves")
            return
        raise
    st = h["model_stats"]
    chk.coverage["evaluations"] = st["casts_ok"] + st["casts_fail"]
    chk.coverage["distinct_nontrivial"] = h["exhaustive_cast_programs"]
    chk.coverage["exhaustive"] = True
    chk.coverage["rule"] = ("exhaustive: group H (mandatory GA; optional Clone, GB, GZ) and group Q (mandatory RA; optional aliased generic instantiations QT<u64>=Abe, QT<u8>=Zed and "
                            "plain QP, Qa - alias order != raw identifier order) x every enabled set x every requested subset x {check,as_ref,as_mut,cast,into} x {Box,Mut,Ref}, "
                            "restricted to the combinations cglue accepts at compile time (Clone needs Box; &mut-method traits need Box/Mut); every site is a literal macro "
                            "invocation followed by calls on the mandatory and each requested trait (event log gives instance and method), upcast + re-check of every optional trait, "
                            "drop accounting; plus casts inside random lifecycle programs. distinct = exhaustive cast sites")
    chk.floor("cast sites", h["exhaustive_cast_programs"], 3000)
    chk.floor("successful casts", st["casts_ok"], 1000)
    chk.floor("failing casts", st["casts_fail"], 1000)
