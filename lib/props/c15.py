"""C15 — callbacks and iterators deliver every item once, in order, until told to stop."""
from props import rtprops

LEVEL = "exploration"


def run(chk, replay=None):
    q = chk.tier == "quick"
    steps = [
        dict(instr="release", part="native", count=400 if q else 20000, args=dict(maxn=7 if q else 10)),
        dict(instr="debug", part="native-debug", count=100 if q else 2000, args=dict(maxn=5)),
        dict(instr="miri", part="miri", count=1, shards=1, args=dict(maxn=3 if q else 4)),
    ]
    if not q:
        steps += [dict(instr="asan", part="asan", count=3000, args=dict(maxn=8))]
    rtprops.execute(chk, "c15", steps)
    # the collecting / counting callbacks and buffer iterators a C user builds with the helpers of the published header
    import bgrun
    hn = bgrun.helpers_step(chk, "C15") + bgrun.helpers_step_cpp(chk, "C15")
    rtprops.summarize(chk, ("callback_cases", "collector_cases", "iterator_cases", "callback_round_cases", "adapter_cases"))
    chk.coverage["rule"] = ("exhaustive grid: n = 0..=maxn Tracked items x stop position {never, each index} x entry {feed_into, feed_into_mut, Extend::extend, Callbackable::call} "
                            "x sink {closure, Vec, VecDeque, custom Extend, BTreeSet}; CIterator: n x advance k x non-fused gap position with direct use of the source "
                            "between two wrappers; plus seeded long cases. distinct = grid points")
    chk.coverage["exhaustive"] = True
    p = chk.parts.get("native", {})
    chk.floor("callback cases", p.get("callback_cases", 0), 300)
    chk.floor("iterator cases", p.get("iterator_cases", 0), 300)
    chk.floor("miri cases", chk.parts.get("miri", {}).get("callback_cases", 0), 20)
