"""Shared driver for the properties decided on generated glue (C01 C02 C06 C07 C08 C13b)."""
import common
import gluerun
import rtrun
from gluerun import SIGMAP


def corpus_steps(chk, accept, only="", miri=True, part_prefix="corpus"):
    q = chk.tier == "quick"
    cdir = gluerun.generate("corpus", chk.tier, 1)          # the corpus itself is fixed per tier; histories vary with VERIF_SEED
    bins, failed = gluerun.build(cdir)
    for n, err in failed:
        chk.incon("corpus %s does not build on this tree: %s" % (n, err[-800:]))
    jobs = []
    reps = 1 if q else 4
    for b in bins:
        for rp in range(reps):
            seed = chk.seed * 7919 + rp
            jobs.append(lambda b=b, seed=seed: gluerun.run_bin(chk, [b, str(seed), str(200 if q else 1500), str(40 if q else 80), only], part_prefix + "-native", accept))
    if miri:
        infos = gluerun.miri_stubs(cdir)
        for k, info in enumerate(infos):
            for rp in range(1 if q else 4):
                seed = chk.seed * 104729 + rp
                jobs.append(lambda seed=seed, info=info: gluerun.run_bin(chk, [str(seed), "1", "6", only], part_prefix + "-miri", accept, miri_info=info, timeout=3000))
    if not q:
        ba, failed_a = gluerun.build(cdir, "asan")
        for b in ba:
            jobs.append(lambda b=b: gluerun.run_bin(chk, [b, str(chk.seed * 31), "200", "60", only], part_prefix + "-asan", accept,
                                                    env={"ASAN_OPTIONS": "detect_leaks=1:halt_on_error=1:exitcode=77"}))
    rtrun.run_many(chk, jobs)
    m = gluerun.meta(cdir, "corpus.json")
    chk.parts.setdefault(part_prefix + "-native", {})["traits_in_corpus"] = len(m["traits"])
    chk.parts[part_prefix + "-native"]["methods_in_corpus"] = sum(len(t["methods"]) for t in m["traits"])
    chk.parts[part_prefix + "-native"]["shards_built"] = len(bins)
    return m


def hist_steps(chk, accept, miri=True):
    q = chk.tier == "quick"
    cdir = gluerun.generate("hist", chk.tier, chk.seed)
    bins, failed = gluerun.build(cdir)
    b = bins[0]
    jobs = [lambda: gluerun.run_bin(chk, [b], "lifecycle-native", accept)]
    if miri:
        mdir = gluerun.generate("hist", chk.tier, chk.seed, miri=True)
        info = gluerun.miri_stub(mdir)
        for sh in range(16):
            jobs.append(lambda sh=sh: gluerun.run_bin(chk, ["", str(sh)], "lifecycle-miri", accept, miri_info=info, miri_flags="-Zmiri-ignore-leaks", timeout=3000))
    if not q:
        ba = gluerun.build(cdir, "asan")[0][0]
        jobs.append(lambda: gluerun.run_bin(chk, [ba], "lifecycle-asan", accept, env={"ASAN_OPTIONS": "detect_leaks=0:halt_on_error=1:exitcode=77"}))
    rtrun.run_many(chk, jobs)
    m = gluerun.meta(cdir, "hist.json")
    chk.parts.setdefault("lifecycle-native", {}).update(model=m["model_stats"], exhaustive_cast_programs=m["exhaustive_cast_programs"], random_programs=m["random_programs"])
    for smp in m["samples"]:
        chk.sample(dict(what="lifecycle program " + smp["name"], case=smp["ops"]))
    return m


def corpus_samples(chk, m, n=3):
    for t in m["traits"][:: max(1, len(m["traits"]) // n)][:n]:
        chk.sample(dict(what="corpus trait", case=t))
