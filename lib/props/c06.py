"""C06 — every owned value is destroyed exactly once, with nothing leaked."""
from props import glueprops
from gluerun import SIGMAP

LEVEL = "exploration"


def run(chk, replay=None):
    h = glueprops.hist_steps(chk, SIGMAP["C06"])
    m = glueprops.corpus_steps(chk, SIGMAP["C06"])
    st = h["model_stats"]
    chk.coverage["evaluations"] = h["programs"] + int(chk.parts.get("corpus-native", {}).get("histories", 0))
    chk.coverage["distinct_nontrivial"] = h["programs"]
    chk.coverage["rule"] = ("generated straight-line lifecycle programs over {create Box/Mut/Ref group or factory object (with/without context), call, owned child, borrowed child, "
                            "check/as_ref/as_mut/cast/into for any accepted subset (successful and failing), upcast, clone, consuming call, drop}, every remaining object dropped in a random "
                            "order; the generator's model states after each step which instances must be alive/dropped; Tracked registry + tracking allocator (free layout, unknown frees) "
                            "observe. Plus ownership checks after every corpus history. model ops: %s" % st)
    chk.floor("programs", int(chk.parts.get("lifecycle-native", {}).get("programs", 0)), 3000)
    chk.floor("failing casts exercised", st["casts_fail"], 500)
    chk.floor("consuming calls exercised", st["consuming"], 20)
    chk.floor("miri programs", int(chk.parts.get("lifecycle-miri", {}).get("programs", 0)), 50)
    chk.assumptions += ["contexts in these programs are CArc; the open C07 finding (context clone left in ret_tmp) is a context leak, not an instance leak, and is reported under C07 only",
                        "Miri runs of lifecycle programs ignore leaks (known C07 finding) and exclude by-value container crossings"]
