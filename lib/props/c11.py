"""C11 — CVec is observationally a Vec."""
from props import rtprops

LEVEL = "exploration"


def run(chk, replay=None):
    q = chk.tier == "quick"
    steps = [
        dict(instr="release", part="native-model", count=1500 if q else 40000, args=dict(depth=2 if q else 3, maxlen=400 if q else 2000)),
        dict(instr="debug", part="native-debug", count=200 if q else 3000, args=dict(depth=1, maxlen=200)),
        dict(instr="miri", part="miri-tracked", count=5 if q else 20, shards=6 if q else 16, shard_arg=False, args=dict(depth=0, maxlen=30, type="tracked")),
        dict(instr="miri", part="miri-u64-zst-u8", count=4 if q else 16, shards=6 if q else 12, shard_arg=False, args=dict(depth=0, maxlen=30, type="all", forged=6)),
    ]
    if not q:
        steps += [dict(instr="asan", part="asan-model", count=4000, args=dict(depth=2, maxlen=600)),
                  dict(instr="valgrind", part="valgrind-model", count=60, args=dict(depth=1, maxlen=200))]
    rtprops.execute(chk, "c11", steps)
    keys = tuple("histories_%s_%s" % (a, b) for a in ("exhaustive", "random") for b in ("u8", "u64", "zst", "tracked")) + ("forged_histories",)
    rtprops.summarize(chk, keys)
    chk.coverage["rule"] = ("lock-step differential against a model Vec over {push,pop,insert,insert OOB,remove,remove OOB,reserve,clone,write+swap,drop+from Vec}: every "
                            "(kind,arg) sequence up to the exhaustive depth x {exact,spare} initial capacity x element types {u8,u64,zst,Tracked}, plus seeded random histories; "
                            "forged CVec over a private arena with counting reserve_fn/drop_fn. distinct = distinct random op sequences")
    p = chk.parts.get("native-model", {})
    chk.floor("native histories on Tracked elements", p.get("histories_random_tracked", 0) + p.get("histories_exhaustive_tracked", 0), 500)
    chk.floor("forged reserve_fn calls observed", p.get("forged_reserve_fn_calls", 0), 50)
    chk.floor("allocator tracking active", p.get("alloc_tracking_active", 0), 1)
    chk.floor("miri histories", chk.parts.get("miri-tracked", {}).get("histories_random_tracked", 0), 10)
    chk.assumptions += ["free-layout check relies on the tracking global allocator (native) and on Miri's own layout check"]
