"""C20 — runtime layout validation accepts identical interfaces and rejects changed ones."""
import os

import common
import gluerun
from common import Inconclusive, WORK, VERIF

LEVEL = "exploration"


def run(chk, replay=None):
    out = os.path.join(WORK, "c20", chk.tier)
    os.makedirs(out, exist_ok=True)
    r = common.run(["python3", os.path.join(VERIF, "glue", "c20gen.py"), out, chk.tier], timeout=600)
    if r["rc"] != 0:
        raise Inconclusive("c20gen failed: " + r["err"][-2000:])
    common.sync_lock(out)
    b = common.run(["cargo", "build", "--offline"], cwd=out, timeout=3600)
    if b["rc"] != 0:
        raise Inconclusive("layout-check pairs do not build on this tree: " + b["err"][-4000:])
    x = common.run([os.path.join(out, "target", "debug", "c20check")], timeout=600)
    recs = common.parse_jsonl(x["out"])
    if not any(r_.get("k") == "done" for r_ in recs):
        raise Inconclusive("c20check did not finish: rc=%s %s" % (x["rc"], x["err"][-1500:]))
    meta = gluerun.meta(out, "c20.json")["pairs"]
    n = eq = ne = 0
    for r_ in recs:
        if r_["k"] == "pair":
            m = meta[r_["id"]]
            n += 1
            what = "%s %s: %s" % (m["base"], m["kind"], m["edit"])
            if m["interfaces_equal"]:
                eq += 1
                if r_["ab"] != "Valid" or r_["ba"] != "Valid":
                    chk.violation("C20:identical-interface-rejected:" + m["edit"].split(":")[0], "%s -> compare_layouts says %s/%s for identical C interfaces" % (what, r_["ab"], r_["ba"]), m)
            else:
                ne += 1
                if r_["ab"] == "Valid" or r_["ba"] == "Valid":
                    chk.violation("C20:changed-interface-accepted:" + m["edit"], "%s -> compare_layouts says Valid (%s/%s) although the C-visible interfaces differ" % (what, r_["ab"], r_["ba"]), m)
            if r_["aa"] != "Valid":
                chk.violation("C20:self-comparison", "%s: a layout compared with itself is %s" % (what, r_["aa"]), m)
            if r_["a_none"] != "Unknown" or r_["none_b"] != "Unknown":
                chk.violation("C20:missing-description-not-unknown", "%s: comparison with a missing description gives %s/%s" % (what, r_["a_none"], r_["none_b"]), m)
        elif r_["k"] == "and":
            x_, y_ = r_["x"], r_["y"]
            want = "Invalid" if "Invalid" in (x_, y_) else ("Unknown" if "Unknown" in (x_, y_) else "Valid")
            if r_["r"] != want:
                chk.violation("C20:verdict-algebra:%s-and-%s" % (x_, y_), "%s.and(%s) = %s, expected %s" % (x_, y_, r_["r"], want), r_)
            if r_["strict_x"] != (x_ == "Valid") or r_["relaxed_x"] != (x_ != "Invalid"):
                chk.violation("C20:verdict-predicates", "is_valid_strict/relaxed wrong for %s" % x_, r_)
            chk.parts.setdefault("algebra", {}).setdefault("pairs", 0)
            chk.parts["algebra"]["pairs"] += 1
        elif r_["k"] == "none" and r_["r"] != "Unknown":
            chk.violation("C20:missing-description-not-unknown", "compare_layouts(None, None) = %s" % r_["r"], r_)
        elif r_["k"] == "check" and (r_["same"] != "Valid" or r_["none"] != "Unknown"):
            chk.violation("C20:verify-layout-check", "VerifyLayout::check gives %s / %s" % (r_["same"], r_["none"]), r_)
    chk.part("pairs", compared=n, identical_interfaces=eq, changed_interfaces=ne)
    for m in meta[:: max(1, len(meta) // 4)][:4]:
        chk.sample(dict(what="(definition, variant) pair", case=m))
    chk.coverage["evaluations"] = n * 5 + 9
    chk.coverage["distinct_nontrivial"] = n
    chk.coverage["rule"] = ("three base traits (mixed shapes incl. slices/str/Option/struct/int_result; same-signature methods + consuming; trait-level int_result) x every single edit "
                            "{identical copy, add at each position, remove each, rename each, swap neighbours, change each argument/return C type, one argument more/fewer, every other receiver "
                            "kind, toggle int_result} x opaque object kinds, and two groups (plain and aliased generic instantiations) x {same set other order, add/remove/replace optional, "
                            "mandatory changes, instantiation / alias changes}; both directions, self-comparison, missing side; all 9 verdict pairs. Expectation = equality of our own C-signature table")
    chk.floor("pairs", n, 150)
    chk.floor("identical-interface pairs", eq, 8)
    chk.floor("verdict algebra pairs", chk.parts.get("algebra", {}).get("pairs", 0), 9)
    chk.assumptions += ["edits that leave the C table unchanged apart from parameter names are not asserted either way",
                        "both layouts come from sibling modules of one build; the module path does not take part in the comparison"]
