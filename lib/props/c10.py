"""C10 — CArc / CArcSome behave as Arc / Option<Arc>."""
from props import rtprops

LEVEL = "exploration"


def run(chk, replay=None):
    q = chk.tier == "quick"
    steps = [
        dict(instr="release", part="native-model", count=20000 if q else 400000, args=dict(depth=3 if q else 4, maxlen=200)),
        dict(instr="debug", part="native-debug-assertions", count=2000 if q else 20000, args=dict(depth=2, maxlen=120)),
        dict(instr="release", part="native-threads", count=1, shards=4 if q else 16, shard_arg=False,
             args=dict(mode="concurrent", threads=8, thread_ops=100000 if q else 1000000, conc_runs=3)),
        dict(instr="miri", part="miri-sequential", count=14 if q else 60, shards=8 if q else 16, shard_arg=False,
             args=dict(mode="random", maxlen=30)),
        dict(instr="miri", part="miri-forged", count=20 if q else 80, shards=2 if q else 8, shard_arg=False, args=dict(mode="forged")),
        dict(instr="miri", part="miri-threads", count=1, shards=16 if q else 128, shard_arg=False, miri_seed_base=chk.seed * 1000,
             args=dict(mode="concurrent", threads=3, thread_ops=40, conc_runs=1)),
    ]
    if not q:
        steps += [
            dict(instr="asan", part="asan-model", count=50000, args=dict(depth=3, maxlen=200)),
            dict(instr="tsan", part="tsan-threads", count=1, shards=8, shard_arg=False,
                 args=dict(mode="concurrent", threads=8, thread_ops=200000, conc_runs=2)),
        ]
    rtprops.execute(chk, "c10", steps)
    rtprops.summarize(chk, ("histories_exhaustive", "histories_random", "forged_histories", "concurrent_runs", "aligned_histories", "parity_cells"))
    chk.coverage["rule"] = ("histories over {from value/Arc/Option<Arc>, clone, take, transpose, into_opaque, into_arc, default, deref, drop} on a pool of <=5 "
                            "handles: every (kind,slot) sequence up to the exhaustive depth after a two-handle prefix, plus seeded random histories; forged handles "
                            "with counting clone_fn/drop_fn; the same count/deref/destruction model over payloads aligned to 16/32/64/128/4096 bytes; Send/Sync of CArc<T>/CArcSome<T> against Arc<T> "
                            "for the four payload classes (always-compiling probe read at run time); concurrent clone/deref/drop from several threads (Miri: one schedule seed per process). distinct = distinct random op sequences (digest)")
    p = chk.parts
    chk.floor("model histories", p.get("native-model", {}).get("histories_random", 0) + p.get("native-model", {}).get("histories_exhaustive", 0), 1000)
    chk.floor("over-aligned payload histories", p.get("native-model", {}).get("aligned_histories", 0), 500)
    chk.floor("auto-trait parity cells", p.get("native-model", {}).get("parity_cells", 0), 16)
    chk.floor("forged clone_fn calls observed", p.get("native-model", {}).get("forged_clone_fn_calls", 0), 50)
    chk.floor("miri sequential histories", p.get("miri-sequential", {}).get("histories_random", 0), 20)
    chk.floor("miri concurrent schedules", p.get("miri-threads", {}).get("concurrent_runs", 0), 8)
    chk.assumptions += ["Miri runs with -Zmiri-disable-stacked-borrows (cglue's Arc-through-&T idiom is outside both aliasing models; DESIGN.md §2)",
                        "handle pointers are Arc::into_raw pointers (needed to read the real strong count through a Weak)"]
