"""C16 — runtime types keep the C layout published in the headers.
A real C program that includes only cview/cglue_rt.h operates values made by Rust (and forges
values consumed by Rust); ASan+UBSan watch, Rust-side counters are the model."""
import os
import re

import common
import gluerun
import rtrun
from common import Inconclusive, WORK, VERIF

LEVEL = "exploration"


def published_helpers(chk):
    import bgrun
    return bgrun.helpers_step(chk, "C16") + bgrun.helpers_step_cpp(chk, "C16")


def run(chk, replay=None):
    q = chk.tier == "quick"
    cdir = os.path.join(VERIF, "cview", "rs")
    common.sync_lock(cdir)
    libs = {}
    libs["release"] = os.path.join(common.cargo_build(cdir, "cview-rel"), "release", "libcviewrs.a")
    libs["debug"] = os.path.join(common.cargo_build(cdir, "cview-dbg", profile_release=False), "debug", "libcviewrs.a")
    if not q:
        for s in range(3):
            seed = chk.seed * 10 + s
            t = common.cargo_build(cdir, "cview-rl%d" % s, toolchain="nightly", env={"RUSTFLAGS": "-Zrandomize-layout -Zlayout-seed=%d" % seed})
            libs["nightly-randomized-layout-%d" % seed] = os.path.join(t, "release", "libcviewrs.a")
    jobs = []
    built = 0
    for lname, lib in libs.items():
        if not os.path.exists(lib):
            raise Inconclusive("staticlib missing: " + lib)
        for cc in ("gcc", "clang"):
            exe = os.path.join(WORK, "cdriver-%s-%s" % (cc, re.sub(r"[^a-z0-9]", "", lname)))
            r = common.run([cc, "-std=c11", "-Wall", "-Wno-unused", "-g", "-O1", "-fsanitize=address,undefined", "-fno-sanitize-recover=undefined",
                            "-I", os.path.join(VERIF, "cview"), "-o", exe, os.path.join(VERIF, "cview", "driver.c"), lib, "-lpthread", "-ldl", "-lm"], timeout=600)
            if r["rc"] != 0:
                raise Inconclusive("C driver does not build (%s, %s): %s" % (cc, lname, r["err"][-2000:]))
            built += 1
            for rep in range(2 if q else 8):
                seed = chk.seed * 1000 + rep
                ops = 3000 if q else 100000
                jobs.append(lambda exe=exe, seed=seed, ops=ops, part="c-driver-%s-%s" % (cc, lname): _one(chk, exe, seed, ops, part))
    rtrun.run_many(chk, jobs)
    helper_cases = published_helpers(chk)
    tot = sum(int(v.get("c_checks", 0)) for k, v in chk.parts.items() if k.startswith("c-driver")) + helper_cases
    ops = sum(int(v.get("ops", 0)) for k, v in chk.parts.items() if k.startswith("c-driver"))
    chk.coverage["evaluations"] = tot
    chk.coverage["distinct_nontrivial"] = ops
    chk.coverage["rule"] = ("seeded operation sequences executed by a C program against the published declarations only: boxes (read/write/release, opaque, forged box consumed by Rust, slice box), "
                            "arcs (clone_fn/drop_fn interleaved with Rust clone/drop, strong count after every step, empty arc), slices of u8/u64/struct (both directions, write-through), vectors "
                            "(read, push from Rust, grow through reserve_fn and write from C, release either side, struct/u8/drop-tracked elements), callbacks (C-made consumed by Rust with every stop "
                            "position, struct argument, Rust-made invoked from C), iterators (Rust-made advanced from C to the end and beyond, C-made consumed by Rust), option/result tags and "
                            "payload offsets (both directions), object container; sizeof/alignof of every declaration vs Rust; x {gcc, clang} x {debug, release (, randomized repr(Rust) layout)} "
                            "under ASan+UBSan; iterators over boxed items with an output-only slot that holds a forged box with a counting release function between items; "
                            "callbacks/iterators built with the helper macros of the processed header (COLLECT_CB for 0..1000 items, COLLECT_CB_INTO_ARR, COUNT_CB, BUF_ITER_SPEC). "
                            "evaluations = C-side assertions executed; distinct = operations")
    chk.floor("C assertions executed", tot, 20000)
    chk.floor("driver builds (compiler x library build)", built, 4)
    chk.assumptions += ["cview/cglue_rt.h is hand-written from the property statement and cross-checked against examples/pregen-headers/bindings.h",
                        "the Rust staticlib only constructs / consumes / counts; it is built from the current /repo tree"]


def _one(chk, exe, seed, ops, part):
    env = {"ASAN_OPTIONS": "detect_leaks=0:halt_on_error=1:abort_on_error=0:exitcode=77", "UBSAN_OPTIONS": "halt_on_error=1:print_stacktrace=1"}
    r = common.run([exe, str(seed), str(ops)], env=common.env_with(env), timeout=1800)
    recs = common.parse_jsonl(r["out"])
    common.ingest_reports(chk, recs, part)
    m = re.search(r"ERROR: AddressSanitizer: ([^\n]*)", r["err"])
    if m:
        chk.violation("C16:asan:" + re.sub(r"0x[0-9a-f]+|\d+", "N", m.group(1))[:60], "%s seed=%d: %s\n%s" % (part, seed, m.group(0), r["err"][:2500]), dict(exe=exe, seed=seed, ops=ops))
        return False
    m = re.search(r"runtime error: ([^\n]*)", r["err"])
    if m:
        chk.violation("C16:ubsan:" + re.sub(r"0x[0-9a-f]+|\d+", "N", m.group(1))[:60], "%s seed=%d: %s" % (part, seed, r["err"][:2000]), dict(exe=exe, seed=seed, ops=ops))
        return False
    return rtrun._classify_exit(chk, chk.pid, r, part, "%s %d %d" % (exe, seed, ops), recs, dict(exe=exe, seed=seed, ops=ops))
