"""C02 — arguments and results cross the boundary without loss or alteration."""
from props import glueprops, rtprops
from gluerun import SIGMAP

LEVEL = "exploration"


def run(chk, replay=None):
    m = glueprops.corpus_steps(chk, SIGMAP["C02"])
    glueprops.corpus_samples(chk, m, 4)
    n = chk.parts.get("corpus-native", {})
    calls = int(n.get("calls", 0)) + int(chk.parts.get("corpus-miri", {}).get("calls", 0))
    rtprops.execute(chk, "extfut", [dict(instr="release", part="ext-futures", count=200 if chk.tier == "quick" else 4000, args=dict(pid="C02")),
                                    dict(instr="miri", part="ext-futures-miri", count=6, args=dict(pid="C02"))])
    chk.floor("Sink op sequences through ext objects", chk.parts.get("ext-futures", {}).get("sink_sequences", 0), 2000)
    chk.coverage["evaluations"] = calls
    chk.coverage["distinct_nontrivial"] = int(n.get("histories", 0))
    chk.coverage["rule"] = ("every argument shape (11 scalars incl. NaN bit patterns and extremes, repr(C) struct, &T, &mut T, &[u8|u64|zst|3-byte struct], &mut [u8|u64], &str incl. "
                            "empty/multi-byte/NUL, Option<&T>, Option<u64>, Option<struct>, Result, impl Into<T>, OpaqueCallback, CIterator, raw pointers) and every return shape "
                            "(scalars, struct, &T, &str, &[T], &mut [T], Option, Option<&T>, Result, int results) in its own trait and mixed in multi-argument methods: the implementor "
                            "digests what it saw (content, length, address) and writes back through &mut; the caller compares with what it sent and with a direct call. Shapes whose "
                            "signature type is itself a cglue type (callback, iterator) are additionally checked against a model inside the call: the count feed_into reports vs the items "
                            "taken from the source, and - for a non-fused source drained in rounds - the Option sequence the implementor saw vs the one the source yielded. "
                            "evaluations = calls; distinct = histories")
    chk.floor("calls compared", calls, 20000)
    chk.floor("miri calls", int(chk.parts.get("corpus-miri", {}).get("calls", 0)), 200)
