"""C07 — the context lives as long as any derived object, and no longer."""
from props import glueprops
from gluerun import SIGMAP

LEVEL = "exploration"


def run(chk, replay=None):
    h = glueprops.hist_steps(chk, SIGMAP["C07"])
    try:
        from props import guardrun
        guardrun.run(chk)
    except ImportError:
        chk.assumptions.append("consuming-call guard clause (backtrace oracle) not built yet")
    st = h["model_stats"]
    chk.coverage["evaluations"] = h["programs"]
    chk.coverage["distinct_nontrivial"] = h["random_programs"]
    chk.coverage["rule"] = ("lifecycle programs over a tree of objects sharing one CArc context; after every step Arc::strong_count(context) is compared with 1 + number of live "
                            "context-holding objects in the generator's model, and with 1 after everything is dropped (random drop order). distinct = random lifecycle programs. model ops: %s" % st)
    chk.floor("programs", int(chk.parts.get("lifecycle-native", {}).get("programs", 0)), 3000)
    chk.floor("owned children", st["owned_child"], 50)
    chk.floor("borrowed children", st["borrowed_child"], 50)
    chk.floor("consuming calls", st["consuming"], 20)
