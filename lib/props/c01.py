"""C01 — calls through an opaque object behave exactly like direct calls."""
from props import glueprops, rtprops
from gluerun import SIGMAP

LEVEL = "exploration"


def run(chk, replay=None):
    m = glueprops.corpus_steps(chk, SIGMAP["C01"])
    h = glueprops.hist_steps(chk, SIGMAP["C01"], miri=False)
    glueprops.corpus_samples(chk, m)
    n = chk.parts.get("corpus-native", {})
    calls = int(n.get("calls", 0)) + int(chk.parts.get("corpus-miri", {}).get("calls", 0))
    hist = int(n.get("histories", 0))
    rtprops.execute(chk, "extfut", [dict(instr="release", part="ext-futures", count=200 if chk.tier == "quick" else 4000, args=dict(pid="C01")),
                                    dict(instr="miri", part="ext-futures-miri", count=6, args=dict(pid="C01"))])
    chk.floor("Sink op sequences through ext objects", chk.parts.get("ext-futures", {}).get("sink_sequences", 0), 2000)
    chk.coverage["evaluations"] = calls + h["model_stats"]["calls"]
    chk.coverage["distinct_nontrivial"] = hist + h["programs"]
    chk.coverage["rule"] = ("differential: the same generic driver code runs a seeded call history on the opaque object and on a fresh copy of the implementor; after every call the "
                            "return digest, the implementor's event log (instance, method, argument digest, pre-state) and every instance state are compared. Corpus: one trait per "
                            "argument shape and per return shape with receivers cycling (&self,&mut self,Pin<&Self>,Pin<&mut Self>), same-signature multi-method traits, attribute "
                            "traits (extern C, unsafe, default body, Send supertrait), consuming traits, int_result traits; containers Box/Mut/Ref/CArcSome with and without a CArc "
                            "context. Lifecycle programs add dispatch checks on groups, casts, clones and wrapped children. evaluations = calls; distinct = histories + programs")
    chk.floor("calls compared", calls, 20000)
    chk.floor("histories", hist, 1000)
    chk.floor("miri calls", int(chk.parts.get("corpus-miri", {}).get("calls", 0)), 200)
    chk.assumptions += ["the recording implementor's own code is identical in both runs (same generic step functions)",
                        "consuming calls and `-> Self` returns are not run under Miri (by-value container ABI check, DESIGN.md §2)"]
