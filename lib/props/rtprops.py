"""Generic driver for properties decided by the `rt` harness (C10-C15, C19).
A plan is a dict: tier -> list of steps; step = (instrument, part name, prop-args dict)."""
import os
import zlib

import common
import rtrun


def _kv(d):
    return ["%s=%s" % (k, v) if v is not True else k for k, v in d.items() if k not in ("count", "seeds", "timeout", "flags", "ignore_leaks")]


def execute(chk, prop, steps):
    """steps: list of dict(instr=, part=, count=, args={}, shards=1, seeds=[...])"""
    needs = {s["instr"] for s in steps}
    bins = {}
    for fl in ("release", "debug", "asan", "notrack", "tsan"):
        if fl in needs or (fl == "notrack" and "valgrind" in needs):
            bins[fl] = rtrun.build("rt", fl)
    if "miri" in needs:
        rtrun.miri_build("rt")
    jobs = []
    for s in steps:
        instr, part = s["instr"], s["part"]
        shards = s.get("shards", 1)
        for sh in range(shards):
            args = dict(s.get("args", {}))
            if shards > 1 and s.get("shard_arg", True):
                args["shard"], args["shards"] = sh, shards
            seed = chk.seed * 1000003 + sh * 7919 + (zlib.crc32(part.encode()) % 1000)
            count = s.get("count", 100)
            kv = _kv(args)
            to = s.get("timeout", 2400)
            if instr in ("release", "debug"):
                jobs.append(lambda b=bins[instr], seed=seed, count=count, kv=kv, part=part, to=to:
                            rtrun.run_native(chk, b, prop, seed, count, kv, part=part, timeout=to))
            elif instr == "asan":
                jobs.append(lambda b=bins["asan"], seed=seed, count=count, kv=kv, part=part, to=to:
                            rtrun.run_asan(chk, b, prop, seed, count, kv, part=part, timeout=to))
            elif instr == "tsan":
                jobs.append(lambda b=bins["tsan"], seed=seed, count=count, kv=kv, part=part, to=to:
                            run_tsan(chk, b, prop, seed, count, kv, part, to))
            elif instr == "valgrind":
                jobs.append(lambda b=bins["notrack"], seed=seed, count=count, kv=kv, part=part, to=to:
                            rtrun.run_valgrind(chk, b, prop, seed, count, kv, part=part, timeout=to))
            elif instr == "miri":
                fl = s.get("flags", "")
                mseed = s.get("miri_seed_base")
                if mseed is not None:
                    fl = (fl + " -Zmiri-seed=%d" % (mseed + sh)).strip()
                    chk.parts.setdefault(part, {}).setdefault("miri_schedule_seeds", []).append(mseed + sh)
                jobs.append(lambda seed=seed, count=count, kv=kv, part=part, to=to, fl=fl, il=s.get("ignore_leaks", False):
                            rtrun.run_miri(chk, "rt", prop, seed, count, kv, part=part, timeout=to, flags=fl, ignore_leaks=il))
            else:
                raise ValueError(instr)
    import time as _t
    parts = []
    for s in steps:
        parts += [s["part"]] * s.get("shards", 1)
    timed = []
    for j, pn in zip(jobs, parts):
        def wrap(j=j, pn=pn):
            t0 = _t.time()
            out = j()
            w = chk.parts.setdefault(pn, {})
            w["max_process_wall_s"] = max(w.get("max_process_wall_s", 0), round(_t.time() - t0, 1))
            return out
        timed.append(wrap)
    res = rtrun.run_many(chk, timed)
    completed = sum(1 for ok, _, _ in res if ok)
    chk.parts.setdefault("_runs", {})
    chk.parts["_runs"].update(processes=len(res), completed=completed)
    return res


def run_tsan(chk, binary, prop, seed, count, kv, part, timeout):
    import re
    cmd = [binary, prop, str(seed), str(count)] + list(kv)
    r = common.run(cmd, env=common.env_with({"TSAN_OPTIONS": "halt_on_error=1:exitcode=66:second_deadlock_stack=1:print_suppressions=1:suppressions=" + os.path.join(common.VERIF, "lib", "tsan.supp")}), timeout=timeout)
    recs = common.parse_jsonl(r["out"])
    common.ingest_reports(chk, recs, part)
    ms = re.search(r"ThreadSanitizer: Matched (\d+) suppressions", r["err"])
    if ms:
        st = chk.parts.setdefault(part, {})
        st["tsan_reports_suppressed_as_fence_artefacts"] = st.get("tsan_reports_suppressed_as_fence_artefacts", 0) + int(ms.group(1))
    if "WARNING: ThreadSanitizer" in r["err"]:
        m = re.search(r"WARNING: ThreadSanitizer: ([^\n(]*)", r["err"])
        chk.violation("%s:tsan:%s" % (chk.pid, m.group(1).strip() if m else "report"), r["err"][:3000], dict(cmd=cmd))
        return False, recs, r
    ok = rtrun._classify_exit(chk, chk.pid, r, part, "tsan " + " ".join(cmd[1:]), recs, dict(cmd=cmd))
    return ok, recs, r


def summarize(chk, keys_eval, keys_distinct=("distinct_cases",)):
    """evaluations / distinct from the per-part stats the harness measured"""
    ev = 0
    di = 0
    for part, st in chk.parts.items():
        if part.startswith("_"):
            continue
        for k in keys_eval:
            ev += int(st.get(k, 0))
        for k in keys_distinct:
            di += int(st.get(k, 0))
    chk.coverage["evaluations"] = ev
    chk.coverage["distinct_nontrivial"] = di
