"""C12 — slice views and C option/result/tuple types are lossless."""
from props import rtprops

LEVEL = "exploration"


def run(chk, replay=None):
    q = chk.tier == "quick"
    steps = [
        dict(instr="release", part="native", count=20000 if q else 2000000, args=dict(maxlen=64 if q else 256, edge_len=4 if q else 5)),
        dict(instr="release", part="native-utf8-3byte-exhaustive", count=1, shards=16, args=dict(what="utf8shard")),
        dict(instr="miri", part="miri-slices-variants", count=40, shards=4, shard_arg=False, args=dict(what="slices", maxlen=9)),
        dict(instr="miri", part="miri-variants", count=1, args=dict(what="variants", variant_rounds=2)),
        dict(instr="miri", part="miri-strings", count=150 if q else 1500, shards=4 if q else 16, shard_arg=False, args=dict(what="strings", le1=True, edge_len=2 if q else 3)),
    ]
    if not q:
        steps += [dict(instr="asan", part="asan", count=100000, args=dict(maxlen=128, edge_len=4))]
    rtprops.execute(chk, "c12", steps)
    rtprops.summarize(chk, ("slice_cases", "str_cases", "utf8_exhaustive_len_le2", "utf8_exhaustive_len3", "utf8_boundary_alphabet_cases", "utf8_random_cases",
                            "coption_cases", "cresult_cases", "ctup_cases"),
                      ("distinct_cases", "utf8_exhaustive_len3"))
    chk.coverage["rule"] = ("slices: every length 0..=maxlen x offsets {0,1,3} x {u8,u64,zst,3-byte struct}, address/len/content/write-through; UTF-8 decision vs core::str::from_utf8 "
                            "exhaustively for all byte strings of length <= 3 (16.8M) and over a 19-byte boundary alphabet up to edge_len, plus seeded random; all variants and "
                            "accessors of COption/CResult/CTup1-4 with Tracked payloads. distinct = slice (type,len,offset) cases + 3-byte strings")
    chk.coverage["exhaustive"] = True
    chk.floor("3-byte UTF-8 strings", chk.parts.get("native-utf8-3byte-exhaustive", {}).get("utf8_exhaustive_len3", 0), 1 << 24)
    chk.floor("slice cases", chk.parts.get("native", {}).get("slice_cases", 0), 700)
    chk.floor("miri slice cases", chk.parts.get("miri-slices-variants", {}).get("slice_cases", 0), 100)
