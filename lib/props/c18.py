"""C18 — post-processed headers compile, are reproducible, keep foreign declarations; the
command line is split at `--` as documented."""
import hashlib
import os
import re

import bgrun
import common
import rtrun
from bgrun import emit
from common import WORK
from props.c17 import CONFIGS

LEVEL = "exploration"


def foreign_texts(model):
    """declarations of the input that do not belong to CGlue constructs, in input order"""
    out = []
    for _, text in sorted(model.user_items, key=lambda x: x[0]):
        for piece in re.split(r"\n\n+", text.strip()):
            if piece.strip():
                out.append(piece.strip())
    out += [f.strip() for f in model.functions]
    return out


def one_model(chk, binary, name, model, cfg, stats):
    em = emit.emit(model)
    w = os.path.join(WORK, "bg18", chk.tier, name)
    tag = dict(model=name, config=cfg, roots=[(x["kind"], x["name"], x["inst"], x["ctx"]) for x in em.roots])
    hashes = set()
    first = None
    for k in range(8 if chk.tier == "quick" else 16):
        r = bgrun.run_tool(binary, w, em.text, config=cfg)
        if r["rc"] != 0 or r["text"] is None:
            chk.violation("C18:tool-failed", "cglue-bindgen failed on %s: %s" % (name, r["err"][-600:]), tag)
            return
        hashes.add(hashlib.sha256(r["text"].encode()).hexdigest())
        first = first or r
    stats["runs"] = stats.get("runs", 0) + 8
    if len(hashes) > 1:
        chk.violation("C18:output-not-reproducible", "model %s (config %s): %d different outputs for identical input (contexts in the header: %s)" % (name, cfg, len(hashes), sorted({x["ctx"] or "NoContext" for x in em.roots})), tag)
    cc = bgrun.compile_check(first["out_path"], w)
    for comp, (rc, err) in cc.items():
        if rc != 0:
            errs = [l.split("error:")[1].strip() for l in err.splitlines() if "error:" in l][:2]
            chk.violation("C18:does-not-compile:%s" % comp, "model %s (config %s): %s rejects the processed header: %s" % (name, cfg, comp, errs), tag)
            break
    stats["compiled"] = stats.get("compiled", 0) + 1
    # foreign declarations: unmodified and in their original order
    pos = -1
    text = first["text"]
    for decl in foreign_texts(model):
        p = text.find(decl)
        if p < 0:
            m = re.match(r"typedef struct (\w+_Context) \{", decl)
            if m:
                # a user type whose C name ends in `_Context` (e.g. Settings<Context>) is taken for an unresolved CGlue context monomorph
                chk.violation("C18:foreign-declaration-altered:struct-named-*_Context", "model %s: user struct %s was rewritten by the context monomorphisation: %s" % (name, m.group(1), decl[:120]), tag)
                continue
            chk.violation("C18:foreign-declaration-altered", "model %s: a declaration that does not belong to CGlue is missing or altered: %s" % (name, decl[:160]), tag)
            break
        if p < pos:
            chk.violation("C18:foreign-declaration-reordered", "model %s: foreign declaration moved before an earlier one: %s" % (name, decl[:160]), tag)
            break
        pos = p
        stats["foreign_decls"] = stats.get("foreign_decls", 0) + 1
    stats["models"] = stats.get("models", 0) + 1


def foreign_texts_cpp(user, funcs):
    out = []
    for _, text in sorted(user, key=lambda x: x[0]):
        for piece in re.split(r"\n\n+", text.strip()):
            if piece.strip():
                out.append(piece.strip())
    return out + [f.strip() for f in funcs]


def one_model_cpp(chk, binary, name, em, user, funcs, cfg, stats):
    w = os.path.join(WORK, "bg18cpp", chk.tier, name)
    tag = dict(model=name, mode="C++", config=cfg, roots=[(x["kind"], x["name"], x["inst"], x["ctx"]) for x in em.roots])
    hashes = set()
    first = None
    nruns = 6 if chk.tier == "quick" else 16
    for k in range(nruns):
        r = bgrun.run_tool_cpp(binary, w, em.text, config=cfg)
        if r["rc"] != 0 or r["text"] is None:
            chk.violation("C18:tool-failed", "cglue-bindgen failed on C++ header %s: %s" % (name, r["err"][-600:]), tag)
            return
        hashes.add(hashlib.sha256(r["text"].encode()).hexdigest())
        first = first or r
    stats["cpp_runs"] = stats.get("cpp_runs", 0) + nruns
    if len(hashes) > 1:
        chk.violation("C18:cpp:output-not-reproducible", "C++ model %s (config %s): %d different outputs for identical input" % (name, cfg, len(hashes)), tag)
    cc = bgrun.compile_check_cpp(first["out_path"], w, thorough=chk.tier != "quick")
    for comp, (rc, err) in cc.items():
        if rc != 0:
            cls, msg = bgrun.cpp_error_class(err)
            if cls == "other":
                cls = re.sub(r"[^A-Za-z0-9]+", "-", re.sub(r"‘[^’]*’", "X", msg))[:60].strip("-")
            chk.violation("C18:cpp:does-not-compile:%s" % cls, "C++ model %s (config %s): %s rejects the processed header: %s" % (name, cfg, comp, msg), tag)
            break
    stats["cpp_compiled"] = stats.get("cpp_compiled", 0) + 1
    pos = -1
    text = first["text"]
    # out-parameters declared MaybeUninit<T>: the wrapper goes, T stays exactly as written (T may be a nested template)
    for want in getattr(em, "uninit_expected", []):
        if want not in text:
            chk.violation("C18:cpp:maybeuninit-parameter-mangled", "C++ model %s: expected `%s` in the processed header; the lines mentioning that function are %s" % (
                name, want, [l.strip() for l in text.splitlines() if want.split("(")[0].split()[-1] in l][:2]), tag)
            break
        stats["cpp_uninit_params"] = stats.get("cpp_uninit_params", 0) + 1
    for decl in foreign_texts_cpp(user, funcs):
        p = text.find(decl)
        if p < 0:
            chk.violation("C18:cpp:foreign-declaration-altered", "C++ model %s: a declaration that does not belong to CGlue is missing or altered: %s" % (name, decl[:160]), tag)
            break
        if p < pos:
            chk.violation("C18:cpp:foreign-declaration-reordered", "C++ model %s: foreign declaration moved before an earlier one: %s" % (name, decl[:160]), tag)
            break
        pos = p
        stats["cpp_foreign_decls"] = stats.get("cpp_foreign_decls", 0) + 1
    stats["cpp_models"] = stats.get("cpp_models", 0) + 1


def argv_checks(chk, binary):
    model = emit.plugin_api_model()
    em = emit.emit(model)
    w = os.path.join(WORK, "bg18", chk.tier, "argv")
    n = 0
    cases = [
        (["+nightly"], ["--config", "cb.toml", "--crate", "api", "--output", "OUT", "-l", "C"], ["--config", "cb.toml", "--crate", "api", "-l", "C"], True),
        ([], ["--crate", "api", "-o", "OUT", "--lang", "c"], ["--crate", "api", "--lang", "c"], False),
        ([], ["-o", "OUT", "--crate", "x y", "-v"], ["--crate", "x y", "-v"], False),
        (["+nightly"], ["--crate", "api"], ["--crate", "api"], True),         # no output path: header goes to stdout
        ([], ["--output", "OUT"], [], False),
        # another argument spelled like the output path: only the value *after* -o/--output is taken out
        ([], ["--crate", "SAMEAS_OUT", "--lang", "C", "--output", "OUT"], ["--crate", "SAMEAS_OUT", "--lang", "C"], False),
        (["+nightly"], ["-o", "OUT", "--crate", "SAMEAS_OUT", "-v"], ["--crate", "SAMEAS_OUT", "-v"], True),
    ]
    for pre, post, want, nightly in cases:
        out = os.path.join(w, "o%d.h" % n)
        post2 = [out if a in ("OUT", "SAMEAS_OUT") else a for a in post]
        want = [out if a == "SAMEAS_OUT" else a for a in want]
        r = bgrun.run_tool(binary, w, em.text, config={"default_container": "Box"} if n % 2 == 0 else None, pre_args=pre, post_args=post2, out_name="o%d.h" % n)
        n += 1
        got = [l[4:] for l in r["argv"].splitlines() if l.startswith("ARG ")]
        via_rustup = "INVOKED rustup" in r["argv"]
        rargs = [l[5:] for l in r["argv"].splitlines() if l.startswith("RARG ")]
        what = "cglue-bindgen %s -- %s" % (" ".join(pre), " ".join(post))
        if got != want:
            chk.violation("C18:argv-not-forwarded", "%s: cbindgen received %s, expected %s" % (what, got, want), dict(pre=pre, post=post))
        if via_rustup != nightly or (nightly and rargs[:3] != ["run", "nightly", "cbindgen"]):
            chk.violation("C18:nightly-selection", "%s: rustup used=%s args=%s" % (what, via_rustup, rargs[:3]), dict(pre=pre, post=post))
        has_out = "OUT" in post
        if has_out and (r["text"] is None or "static inline" not in r["text"] or r["stdout"].strip()):
            chk.violation("C18:output-path", "%s: processed header not (only) written to the output path" % what, dict(pre=pre, post=post))
        if not has_out and "static inline" not in r["stdout"]:
            chk.violation("C18:output-path", "%s: without an output path the processed header must go to stdout" % what, dict(pre=pre, post=post))
    # the output path *receives* the processed header: whatever the file held before is gone
    fresh = bgrun.run_tool(binary, w, em.text, config=None, out_name="fresh.h")
    stale = os.path.join(w, "stale.h")
    with open(stale, "w") as f:
        f.write((fresh["text"] or "") + "\n/* tail of a longer, older header */\n" + "typedef struct OldThing { int x; } OldThing;\n" * 400)
    env = common.env_with({"PATH": bgrun.FAKEBIN + ":" + os.environ.get("PATH", ""), "FAKE_CBINDGEN_HEADER": os.path.join(w, "raw.h"), "FAKE_CBINDGEN_LOG": os.path.join(w, "argv.log")})
    r2 = common.run([binary, "--", "--crate", "api", "--output", stale], env=env, timeout=300, cwd=w)
    n += 1
    got = open(stale).read() if os.path.exists(stale) else None
    if r2["rc"] != 0 or got != fresh["text"]:
        chk.violation("C18:output-path-keeps-old-content", "regenerating into an existing, longer file: the file is %s bytes, the processed header %s bytes (rc %s)" % (
            len(got) if got is not None else None, len(fresh["text"] or ""), r2["rc"]), None)
    # the configuration file is the one named before `--`, never one named after it
    r = bgrun.run_tool(binary, w, em.text, config={"function_prefix": "zz"}, post_args=["-c", "not-a-cglue-config.toml", "--output", os.path.join(w, "cfg.h")], out_name="cfg.h")
    if r["text"] is None or "zz_" not in r["text"]:
        chk.violation("C18:config-source", "function_prefix from the -c file before `--` was not applied", None)
    if [l[4:] for l in r["argv"].splitlines() if l.startswith("ARG ")] != ["-c", "not-a-cglue-config.toml"]:
        chk.violation("C18:argv-not-forwarded", "a -c after `--` belongs to cbindgen", None)
    return n + 1


def run(chk, replay=None):
    q = chk.tier == "quick"
    binary = bgrun.tool()
    stats = {}
    one_model(chk, binary, "plugin-api", emit.plugin_api_model(), {"default_container": "Box", "default_context": "Arc"}, stats)
    n = 30 if q else 400
    jobs = []
    for i in range(n):
        seed = chk.seed * 100000 + 7000 + i
        jobs.append(lambda i=i, seed=seed: one_model(chk, binary, "m%d" % seed, emit.random_model(seed, fnptr=(i % 6 == 0), wrapped=(i % 3 == 1), wrapped_ctx=("" if i % 6 == 1 else "Arc"), layout=(i % 4 >= 2), plain=(i % 8 == 3)), CONFIGS[i % len(CONFIGS)], stats))
    ncpp = 16 if q else 200
    for i in range(ncpp):
        seed = chk.seed * 100000 + 57000 + i

        def job(i=i, seed=seed):
            m, em, user, funcs = bgrun.emit_cpp.random_cpp(seed, fnptr=(i % 6 == 0), wrapped=(i % 3 == 1), wrapped_ctx=("" if i % 6 == 1 else "Arc"), layout=(i % 4 >= 2), plain=(i % 8 == 3))
            one_model_cpp(chk, binary, "c%d" % seed, em, user, funcs, CONFIGS[i % len(CONFIGS)], stats)
        jobs.append(job)
    # every configuration on headers that declare only one kind of context (a default naming a type the header lacks must not leak into it)
    for i in range(2 if q else 10):
        seed = chk.seed * 100000 + 58000 + i
        for fc in ("", "Arc"):
            for ci, cfg in enumerate(CONFIGS):
                def job(seed=seed, fc=fc, ci=ci, cfg=cfg):
                    m, em, user, funcs = bgrun.emit_cpp.random_cpp(seed, force_ctx=fc)
                    one_model_cpp(chk, binary, "s%d%s_%d" % (seed, fc or "No", ci), em, user, funcs, cfg, stats)
                jobs.append(job)
    rtrun.run_many(chk, jobs)
    stats["argv_cases"] = argv_checks(chk, binary)
    chk.part("headers", **stats)
    m0 = emit.random_model(chk.seed * 100000 + 7001)
    chk.sample(dict(what="foreign declarations injected into a model", case=foreign_texts(m0)[:6]))
    chk.sample(dict(what="root types of that model (kind, name, container, context)", case=m0.roots))
    chk.coverage["evaluations"] = (stats.get("runs", 0) + stats.get("compiled", 0) * 2 + stats.get("foreign_decls", 0) + stats.get("argv_cases", 0)
                                   + stats.get("cpp_runs", 0) + stats.get("cpp_compiled", 0) * 2 + stats.get("cpp_foreign_decls", 0))
    chk.coverage["distinct_nontrivial"] = stats.get("models", 0) + stats.get("cpp_models", 0)
    chk.coverage["rule"] = ("the header space of C17 (incl. several context types in one header) with unrelated user declarations injected at random positions - structs named *Vtbl, *_Context, "
                            "*RetTmp_*, fields called ret_tmp / context, functions ending in _drop / _clone, macros, enums, function-pointer typedefs; per header: 8-16 runs in fresh processes "
                            "(byte identity), gcc -std=c99 and clang -fsyntax-only on a TU that only includes the output, every foreign declaration present verbatim and in input order; "
                            "6 configurations; command-line cases for `--` splitting, -o/--output capture, +nightly, config source. The same models in cbindgen's C++ shape with C++ user "
                            "declarations (templates named *Vtbl / *ObjContainer / UserBox, a `Settings<Context>` template, enum class, constexpr, function-pointer alias): repeated runs, g++ and "
                            "clang++ -std=c++11 (thorough: also c++17) on a TU whose first include is the output, foreign declarations verbatim and in order. distinct = headers")
    chk.floor("headers", stats.get("models", 0), 20)
    chk.floor("foreign declarations checked", stats.get("foreign_decls", 0), 100)
    chk.floor("command-line cases", stats.get("argv_cases", 0), 6)
    chk.floor("C++ headers", stats.get("cpp_models", 0), 10)
    chk.assumptions += ["headers come from the calibrated cbindgen emulators (C shape and C++ shape); cbindgen itself is not installed"]
