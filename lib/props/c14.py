"""C14 — ReprCString owns one well-formed NUL-terminated buffer."""
import os

import common
import gluerun
from common import VERIF
from props import rtprops

LEVEL = "exploration"


def run(chk, replay=None):
    q = chk.tier == "quick"
    steps = [
        dict(instr="release", part="native-release", count=300 if q else 20000, args=dict(maxsym=5 if q else 6)),
        dict(instr="debug", part="native-debug", count=300 if q else 5000, args=dict(maxsym=5)),
        dict(instr="miri", part="miri", count=1 if q else 4, shards=16, args=dict(maxsym=3 if q else 4)),
    ]
    if not q:
        steps += [dict(instr="asan", part="asan", count=2000, args=dict(maxsym=5)),
                  dict(instr="valgrind", part="valgrind", count=50, args=dict(maxsym=3))]
    rtprops.execute(chk, "c14", steps)
    # the library's `serde` feature: a ReprCString built by deserialisation (transient, owned and borrowed strings; JSON from memory and from a reader)
    t = common.cargo_build(os.path.join(VERIF, "serdechk"), "serdechk", profile_release=False)
    gluerun.run_bin(chk, [os.path.join(t, "debug", "serdechk")], "serde-feature", ("C14:",))
    chk.floor("strings built by deserialisation", int(chk.parts.get("serde-feature", {}).get("serde_cases", 0)), 3000)
    rtprops.summarize(chk, ("inputs_via_str", "inputs_via_string", "inputs_via_bytes", "reprcstr_cases"))
    chk.coverage["rule"] = ("every string over the alphabet {NUL,'a','é','€','😀'} up to maxsym symbols, built through From<&str>, From<String> and From<&[u8]> "
                            "(classes: empty, NUL-free, NUL-terminated, interior NUL, bytes without terminator), plus random longer inputs; each checked for content, terminator, "
                            "eq/hash/clone, exactly one live block of size len+1, free layout, leak; with the serde feature, ~1000 strings (escapes, NUL, multi-byte) deserialised from transient/owned/borrowed strings and from JSON (memory, reader) and serialised again. distinct = (input, constructor) pairs")
    chk.coverage["exhaustive"] = True
    p = chk.parts.get("native-debug", {})
    chk.floor("inputs via &[u8] (debug build: leak visible)", p.get("inputs_via_bytes", 0), 3000)
    chk.floor("allocator accounting active", p.get("allocator_accounting", 0), 1)
    chk.floor("byte slices without terminator", p.get("class_bytes_without_terminator", 0), 100)
    chk.floor("miri inputs via bytes", chk.parts.get("miri", {}).get("inputs_via_bytes", 0), 100)
    chk.assumptions += ["release builds may elide the leaked outer Box of the pre-fix From<&[u8]>: the debug build and Miri are the leak oracles"]
