"""C17 — generated C wrappers forward to the right slot with the right arguments.
cbindgen itself is not available offline: headers come from the calibrated emulator in
/verif/bindgen/emit.py; cglue-bindgen runs unmodified behind a fake `cbindgen` on PATH."""
import os
import re

import bgrun
import common
import rtrun
from bgrun import emit
from common import WORK

LEVEL = "exploration"
CONFIGS = [None, {"default_container": "Box", "default_context": "Arc"}, {"function_prefix": "api"}, {"default_container": "Mut", "default_context": "NoContext"},
           {"default_container": "Box", "default_context": "NoContext", "function_prefix": "x"}, {"default_container": "Ref", "default_context": "Arc"}]


def one_model(chk, binary, name, model, cfg, stats):
    em = emit.emit(model)
    w = os.path.join(WORK, "bg", chk.tier, name)
    r = bgrun.run_tool(binary, w, em.text, config=cfg)
    tag = dict(model=name, config=cfg, roots=[(x["kind"], x["name"], x["inst"], x["ctx"]) for x in em.roots])
    if r["rc"] != 0 or r["text"] is None:
        chk.violation("C17:tool-failed", "cglue-bindgen failed on %s: %s" % (name, r["err"][-600:]), tag)
        return
    res = bgrun.drive(w, em, model, r["out_path"], r["text"])
    if "build_error" in res:
        errs = [l for l in res["build_error"].splitlines() if "error" in l][:3]
        chk.violation("C17:wrappers-do-not-compile", "driver for %s does not compile: %s" % (name, errs), tag)
        return
    if not res.get("done"):
        m = re.search(r"ERROR: AddressSanitizer: ([^\n]*)|runtime error: ([^\n]*)", res.get("run_err", ""))
        chk.violation("C17:driver-crashed", "driver for %s died (rc=%s): %s" % (name, res.get("run_rc"), (m.group(0) if m else res.get("run_err", "")[:400])), tag)
        return
    viol, st = bgrun.judge(em, model, res)
    seen = set()
    for sig, d in viol:
        if sig not in seen:
            seen.add(sig)
            chk.violation(sig, "model %s (config %s): %s" % (name, cfg, d), tag)
    for k, v in st.items():
        stats[k] = stats.get(k, 0) + v
    stats["models"] = stats.get("models", 0) + 1


def run(chk, replay=None):
    q = chk.tier == "quick"
    binary = bgrun.tool()
    stats = {}
    # calibration of the emulator against the shipped header
    pm = emit.plugin_api_model()
    em = emit.emit(pm)
    w = os.path.join(WORK, "bg", chk.tier, "plugin-api")
    r = bgrun.run_tool(binary, w, em.text, config={"default_container": "Box", "default_context": "Arc"})
    if r["text"]:
        ref = open(os.path.join(common.REPO, "examples", "pregen-headers", "bindings.h")).read()

        def norm(s):
            s = re.sub(r"/\*.*?\*/", "", s, flags=re.S)
            s = re.sub(r"//[^\n]*", "", s)
            return [l.strip() for l in s.splitlines() if l.strip()]
        a, b = norm(r["text"]), norm(ref)
        only_ref = [l for l in b if l not in set(a)]
        chk.part("emulator-calibration", lines_ours=len(a), lines_shipped_header=len(b), shipped_lines_not_reproduced=len(only_ref),
                 explanation="lines of examples/pregen-headers/bindings.h that (emulated cbindgen output -> current tool) does not reproduce: typedef-chain aliases the emulator abbreviates, helper functions that gained `static inline` since the file was generated, and the vtable copies added by the fix for returned objects")
    one_model(chk, binary, "plugin-api", pm, {"default_container": "Box", "default_context": "Arc"}, stats)
    n = 40 if q else 600
    jobs = []
    for i in range(n):
        seed = chk.seed * 100000 + i
        jobs.append(lambda i=i, seed=seed: one_model(chk, binary, "m%d" % seed, emit.random_model(seed, fnptr=(i % 5 == 0)), CONFIGS[i % len(CONFIGS)], stats))
    rtrun.run_many(chk, jobs)
    chk.part("wrappers", **stats)
    m0 = emit.random_model(chk.seed * 100000 + 1)
    chk.sample(dict(what="API model", traits={t.name: [(m.name, m.recv, [a[0] for a in m.args], m.ret if isinstance(m.ret, str) else list(m.ret)) for m in t.methods] for t in m0.traits.values()},
                    groups=m0.groups, roots=m0.roots))
    chk.coverage["evaluations"] = stats.get("calls", 0)
    chk.coverage["distinct_nontrivial"] = stats.get("slots_covered", 0)
    chk.coverage["rule"] = ("API models: the plugin-api of the repository (calibration) + seeded models of 1-4 traits, 0-2 groups, 1-4 methods with 0-4 arguments of scalar/struct/slice/pointer/"
                            "callback/function-pointer types, by-ref/by-mut/consuming receivers, returns incl. struct, pointer and the container itself (Clone), Box/Mut/Ref roots with and "
                            "without Arc context, the same method name in two traits, x 6 tool configurations. For every root type mock vtables log (root, trait, slot, container address, "
                            "argument check, sequence); every wrapper of the processed header is called with sentinel arguments under ASan+UBSan. evaluations = wrapper calls; distinct = "
                            "vtable entries reached")
    chk.floor("wrapper calls", stats.get("calls", 0), 200)
    chk.floor("models", stats.get("models", 0), 20)
    chk.floor("vtable entries reached", stats.get("slots_covered", 0), 100)
    chk.assumptions += ["headers come from an emulator of cbindgen's output shape (cbindgen is not installed); its fidelity is argued by calibration against the shipped pre-generated header",
                        "C mode only; the C++ generator is exercised for compilation/reproducibility in C18 only when a C++ emulation exists (see DESIGN.md)"]
