"""C17 — generated C wrappers forward to the right slot with the right arguments.
cbindgen itself is not available offline: headers come from the calibrated emulator in
/verif/bindgen/emit.py; cglue-bindgen runs unmodified behind a fake `cbindgen` on PATH."""
import os
import re

import bgrun
import common
import rtrun
from bgrun import emit
from common import WORK

LEVEL = "exploration"
CONFIGS = [None, {"default_container": "Box", "default_context": "Arc"}, {"function_prefix": "api"}, {"default_container": "Mut", "default_context": "NoContext"},
           {"default_container": "Box", "default_context": "NoContext", "function_prefix": "x"}, {"default_container": "Ref", "default_context": "Arc"},
           {"default_container": "Box"}, {"default_context": "Arc"}, {"default_container": "Mut", "default_context": "Arc", "function_prefix": "p"}, {"default_context": "NoContext"}]


def one_model(chk, binary, name, model, cfg, stats):
    em = emit.emit(model)
    w = os.path.join(WORK, "bg", chk.tier, name)
    r = bgrun.run_tool(binary, w, em.text, config=cfg)
    tag = dict(model=name, config=cfg, roots=[(x["kind"], x["name"], x["inst"], x["ctx"]) for x in em.roots])
    if r["rc"] != 0 or r["text"] is None:
        chk.violation("C17:tool-failed", "cglue-bindgen failed on %s: %s" % (name, r["err"][-600:]), tag)
        return
    res = bgrun.drive(w, em, model, r["out_path"], r["text"])
    if "build_error" in res:
        errs = [l for l in res["build_error"].splitlines() if "error" in l][:3]
        chk.violation("C17:wrappers-do-not-compile", "driver for %s does not compile: %s" % (name, errs), tag)
        return
    if not res.get("done"):
        m = re.search(r"ERROR: AddressSanitizer: ([^\n]*)|runtime error: ([^\n]*)", res.get("run_err", ""))
        chk.violation("C17:driver-crashed", "driver for %s died (rc=%s): %s" % (name, res.get("run_rc"), (m.group(0) if m else res.get("run_err", "")[:400])), tag)
        return
    viol, st = bgrun.judge(em, model, res)
    sv, ns = bgrun.judge_sizes(em, model, res.get("sizes", {}), "C")
    st["sizes_compared"] = ns
    hv, nh = res.get("helpers", ([], 0))
    st["helper_cases"] = nh
    seen = set()
    for sig, d in viol + [("C17:" + s, d) for s, d in sv + hv]:
        if sig not in seen:
            seen.add(sig)
            chk.violation(sig, "model %s (config %s): %s" % (name, cfg, d), tag)
    for k, v in st.items():
        stats[k] = stats.get(k, 0) + v
    stats["models"] = stats.get("models", 0) + 1


def one_model_cpp(chk, binary, name, model, em, cfg, stats):
    """C++ mode: the same oracle over member-function wrappers, one driver per root type"""
    w = os.path.join(WORK, "bgcpp", chk.tier, name)
    r = bgrun.run_tool_cpp(binary, w, em.text, config=cfg)
    tag = dict(model=name, mode="C++", config=cfg, roots=[(x["kind"], x["name"], x["inst"], x["ctx"]) for x in em.roots])
    if r["rc"] != 0 or r["text"] is None:
        chk.violation("C17:tool-failed", "cglue-bindgen failed on C++ header %s: %s" % (name, r["err"][-600:]), tag)
        return
    comps = (("g++", "-std=c++11"),) if chk.tier == "quick" else (("g++", "-std=c++11"), ("clang++", "-std=c++11"), ("g++", "-std=c++17"))
    res = bgrun.drive_cpp(w, em, model, r["out_path"], r["text"], compilers=comps)
    seen = set()
    failed_roots = set()
    for ri, cls, msg in res["failures"]:
        x = em.roots[ri]
        failed_roots.add(ri)
        sig = "C17:cpp:%s:%s" % (cls, "NoContext" if not x["ctx"] else "Arc") if cls.startswith("compile:context-member") else "C17:cpp:%s" % cls
        if sig not in seen:
            seen.add(sig)
            chk.violation(sig, "C++ model %s (config %s): wrappers of %s %s (%s, %s) cannot be used: %s" % (name, cfg, x["kind"], x["name"], x["inst"], x["ctx"] or "NoContext", msg), tag)
    ok_roots = set(range(len(em.roots))) - failed_roots
    viol, st = bgrun.judge(em, model, res, only_roots=ok_roots)
    sv, ns = bgrun.judge_sizes(em, model, res.get("sizes", {}), "C++")
    st["sizes_compared"] = ns
    # the member a user calls: the entry's own name; only when two traits *of the same group* share it, the trait's name is put in front
    # (module documentation of cglue-bindgen's C++ generator)
    named = 0
    for c in res["calls"]:
        if c["nlog"] != 1 or c["recs"][0][0] != c["root"]:
            continue
        x = em.roots[c["root"]]
        ti, si = c["recs"][0][1], c["recs"][0][2]
        if ti >= len(x["vtables"]):
            continue
        tname = x["vtables"][ti][0]
        mname = model.traits[tname].methods[si].name
        clash = x["kind"] == "group" and any(mm.name == mname for t2, _, _ in x["vtables"] if t2 != tname for mm in model.traits[t2].methods)
        want = (tname.lower() + "_" + mname) if clash else mname
        named += 1
        if c["w"] != want:
            viol.append(("C17:member-name", "entry %s::%s of %s %s is offered as member `%s`, documented name `%s`" % (tname, mname, x["kind"], x["name"], c["w"], want)))
    st["member_names_checked"] = named
    for sig, d in viol + [("C17:" + s, d) for s, d in sv]:
        sig = sig.replace("C17:", "C17:cpp:", 1)
        if sig not in seen:
            seen.add(sig)
            chk.violation(sig, "C++ model %s (config %s): %s" % (name, cfg, d), tag)
    for k, v in st.items():
        stats["cpp_" + k] = stats.get("cpp_" + k, 0) + v
    stats["cpp_models"] = stats.get("cpp_models", 0) + 1
    stats["cpp_roots_driven"] = stats.get("cpp_roots_driven", 0) + len(ok_roots)


def calibrate_cpp(chk, binary):
    m, em = bgrun.emit_cpp.plugin_api_cpp()
    w = os.path.join(WORK, "bgcpp", chk.tier, "plugin-api")
    r = bgrun.run_tool_cpp(binary, w, em.text, config={"default_container": "Box", "default_context": "Arc"})
    if r["text"]:
        ref = open(os.path.join(common.REPO, "examples", "pregen-headers", "bindings.hpp")).read()

        def norm(s):
            s = re.sub(r"/\*.*?\*/", "", s, flags=re.S)
            s = re.sub(r"//[^\n]*", "", s)
            s = s.replace("inline auto ", "inline AUTO ").replace("constexpr auto ", "constexpr AUTO ")
            return [l.strip() for l in s.splitlines() if l.strip()]
        a, b = norm(r["text"]), norm(ref)
        only_ref = [l for l in b if l not in set(a)]
        chk.part("emulator-calibration-cpp", lines_ours=len(a), lines_shipped_header=len(b), shipped_lines_not_reproduced=len(only_ref),
                 explanation="lines of examples/pregen-headers/bindings.hpp that (emulated cbindgen C++ output -> current tool) does not reproduce: the shipped file was produced by a variant of the "
                             "tool that spells return types `auto` and keeps MaybeUninit as an alias; everything else (templates, specialisations, wrappers, alias chain) is reproduced line for line")
    return m, em


def run(chk, replay=None):
    q = chk.tier == "quick"
    binary = bgrun.tool()
    stats = {}
    # calibration of the emulator against the shipped header
    pm = emit.plugin_api_model()
    em = emit.emit(pm)
    w = os.path.join(WORK, "bg", chk.tier, "plugin-api")
    r = bgrun.run_tool(binary, w, em.text, config={"default_container": "Box", "default_context": "Arc"})
    if r["text"]:
        ref = open(os.path.join(common.REPO, "examples", "pregen-headers", "bindings.h")).read()

        def norm(s):
            s = re.sub(r"/\*.*?\*/", "", s, flags=re.S)
            s = re.sub(r"//[^\n]*", "", s)
            return [l.strip() for l in s.splitlines() if l.strip()]
        a, b = norm(r["text"]), norm(ref)
        only_ref = [l for l in b if l not in set(a)]
        chk.part("emulator-calibration", lines_ours=len(a), lines_shipped_header=len(b), shipped_lines_not_reproduced=len(only_ref),
                 explanation="lines of examples/pregen-headers/bindings.h that (emulated cbindgen output -> current tool) does not reproduce: typedef-chain aliases the emulator abbreviates, helper functions that gained `static inline` since the file was generated, and the vtable copies added by the fix for returned objects")
    one_model(chk, binary, "plugin-api", pm, {"default_container": "Box", "default_context": "Arc"}, stats)
    n = 40 if q else 600
    jobs = []
    for i in range(n):
        seed = chk.seed * 100000 + i
        jobs.append(lambda i=i, seed=seed: one_model(chk, binary, "m%d" % seed, emit.random_model(seed, fnptr=(i % 5 == 0), wrapped=(i % 3 == 1), wrapped_ctx=("" if i % 6 == 1 else "Arc"), layout=(i % 4 == 2)), CONFIGS[i % len(CONFIGS)], stats))
    # ---- C++ mode
    pm_cpp, em_cpp = calibrate_cpp(chk, binary)
    jobs.append(lambda: one_model_cpp(chk, binary, "plugin-api", pm_cpp, em_cpp, {"default_container": "Box", "default_context": "Arc"}, stats))
    ncpp = 16 if q else 200
    for i in range(ncpp):
        seed = chk.seed * 100000 + 50000 + i

        def job(i=i, seed=seed):
            m, em, _, _ = bgrun.emit_cpp.random_cpp(seed, fnptr=(i % 5 == 0), wrapped=(i % 3 == 1), wrapped_ctx=("" if i % 6 == 1 else "Arc"), layout=(i % 4 == 2))
            one_model_cpp(chk, binary, "c%d" % seed, m, em, CONFIGS[i % len(CONFIGS)], stats)
        jobs.append(job)
    rtrun.run_many(chk, jobs)
    chk.part("wrappers", **stats)
    m0 = emit.random_model(chk.seed * 100000 + 1)
    chk.sample(dict(what="API model", traits={t.name: [(m.name, m.recv, [a[0] for a in m.args], m.ret if isinstance(m.ret, str) else list(m.ret)) for m in t.methods] for t in m0.traits.values()},
                    groups=m0.groups, roots=m0.roots))
    chk.coverage["evaluations"] = stats.get("calls", 0) + stats.get("cpp_calls", 0)
    chk.coverage["distinct_nontrivial"] = stats.get("slots_covered", 0) + stats.get("cpp_slots_covered", 0)
    chk.coverage["rule"] = ("API models: the plugin-api of the repository (calibration) + seeded models of 1-4 traits, 0-2 groups, 1-4 methods with 0-4 arguments of scalar/struct/slice/pointer/"
                            "callback/function-pointer types, by-ref/by-mut/consuming receivers, returns incl. struct, pointer and the container itself (Clone), Box/Mut/Ref roots with and "
                            "without Arc context, the same method name in two traits, x 6 tool configurations. For every root type mock vtables log (root, trait, slot, container address, "
                            "argument check, sequence); every wrapper of the processed header is called with sentinel arguments under ASan+UBSan. The same models are also emitted in "
                            "cbindgen's C++ shape (templates, `using` chains, opaque zero-sized items); there each root type gets its own C++ driver (g++ -std=c++11; thorough adds clang++ and "
                            "c++17) that fills template vtables with mocks, calls every member-function wrapper, consumes through `std::move(obj).f()` and lets destructors run. "
                            "sizeof every object and container type as the C/C++ compiler sees it in the processed header is compared with the size the Rust definitions give it. "
                            "The helper macros of the C header (COLLECT_CB, COLLECT_CB_INTO_ARR, COUNT_CB, BUF_ITER) are driven the way Rust drives callbacks and iterators, 0..1000 items. "
                            "evaluations = wrapper calls; distinct = vtable entries reached")
    chk.floor("wrapper calls", stats.get("calls", 0), 200)
    chk.floor("models", stats.get("models", 0), 20)
    chk.floor("vtable entries reached", stats.get("slots_covered", 0), 100)
    chk.floor("header helper cases", stats.get("helper_cases", 0), 100)
    chk.floor("C++ wrapper calls", stats.get("cpp_calls", 0), 60)
    chk.floor("C++ root types driven", stats.get("cpp_roots_driven", 0), 10)
    chk.assumptions += ["headers come from an emulator of cbindgen's output shape (cbindgen is not installed); its fidelity is argued by calibration against the shipped pre-generated header",
                        "C++ mode: same caveat; the C++ emulation reproduces the shipped bindings.hpp except for the `auto` spelling of return types"]
