"""C03 — everything crossing the boundary is FFI-safe by the compiler's own rules.
Output validation: the real generator (cglue-gen linked into `expander`) is *run* on a
workload of definitions; each output is compiled as plain source with the FFI lints denied."""
import json
import os
import re

import common
import gluerun
from common import Inconclusive, WORK, VERIF

LEVEL = "translation_validation"


def run(chk, replay=None):
    exp_t = common.cargo_build(os.path.join(VERIF, "expander"), "expander")
    expander = os.path.join(exp_t, "release", "expander")
    out = os.path.join(WORK, "c03", chk.tier)
    os.makedirs(out, exist_ok=True)
    r = common.run(["python3", os.path.join(VERIF, "glue", "c03gen.py"), out, chk.tier, expander], timeout=1200)
    if r["rc"] != 0:
        raise Inconclusive("c03gen failed: " + r["err"][-2000:])
    # the case crate enables cglue's `futures` feature: start from the lock file of /verif/rt, which pins the futures crates
    # to the versions available offline (the repository's own lock does not list them)
    lock = os.path.join(out, "Cargo.lock")
    if not os.path.exists(lock) or "futures-util" not in open(lock).read():
        import shutil
        shutil.copy(os.path.join(common.VERIF, "rt", "Cargo.lock"), lock)
    meta = gluerun.meta(out, "c03.json")
    cases = {c["case"]: c for c in meta["cases"]}
    failed_exp = [c for c in meta["cases"] if "expander_failed" in c]
    for c in failed_exp:
        chk.incon("generator could not expand case %s (%s): %s" % (c["case"], c["desc"], c["expander_failed"][:300]))
    rc = common.run(["cargo", "check", "--offline", "--message-format=json"], cwd=out, timeout=3000)
    lint_hits, other_errors, canary = [], [], 0
    for line in rc["out"].splitlines():
        if not line.startswith("{"):
            continue
        try:
            m = json.loads(line)
        except ValueError:
            continue
        if m.get("reason") != "compiler-message":
            continue
        d = m["message"]
        code = (d.get("code") or {}).get("code") or ""
        fn = d["spans"][0]["file_name"] if d.get("spans") else ""
        if code in ("improper_ctypes_definitions", "improper_ctypes"):
            if fn.endswith("lib.rs"):
                canary += 1
                continue
            mm = re.search(r"case_(\d+)\.rs", fn)
            lint_hits.append((int(mm.group(1)) if mm else -1, code, d["message"], fn))
        elif d["level"] == "error" and "aborting due to" not in d["message"] and "could not compile" not in d["message"]:
            other_errors.append((fn, d["message"][:300]))
    if other_errors:
        # the expansion does not even compile: harness/grammar problem on this tree, not a verdict
        chk.incon("expanded cases do not compile: %s" % other_errors[:3])
    seen = set()
    for case, code, msg, fn in lint_hits:
        c = cases.get(case, {})
        ty = re.search(r"uses type `([^`]*)`", msg)
        sig = "C03:%s:%s:%s" % (code, c.get("name", "?"), ty.group(1) if ty else "?")
        if sig in seen:
            continue
        seen.add(sig)
        chk.violation(sig, "case %s (%s): %s -- definitions in %s/defs/case_%s.rs" % (case, c.get("desc"), msg, out, case), dict(case=case, desc=c.get("desc")))
    # the library's own `extern "C"` definitions (exported functions, function-pointer fields) under each feature set: same lint, on the library itself
    lib_sets = [[], ["layout_checks", "task", "futures"], ["rust_void"]]
    lib_diag = 0
    for fs in lib_sets:
        cmd = ["cargo", "check", "--offline", "--message-format=json", "--target-dir", os.path.join(WORK, "target-c03lib")] + (["--features", ",".join(fs)] if fs else [])
        rl = common.run(cmd, cwd=os.path.join(common.REPO, "cglue"), timeout=3000)
        if rl["rc"] != 0:
            chk.incon("the library does not build with features %s: %s" % (fs, rl["err"][-400:]))
            continue
        for line in rl["out"].splitlines():
            if not line.startswith("{"):
                continue
            try:
                m = json.loads(line)
            except ValueError:
                continue
            d = m.get("message") if m.get("reason") == "compiler-message" else None
            if d and ((d.get("code") or {}).get("code") or "") in ("improper_ctypes_definitions", "improper_ctypes"):
                lib_diag += 1
                ty = re.search(r"uses type `([^`]*)`", d["message"])
                fn = d["spans"][0]["file_name"] if d.get("spans") else "?"
                sig = "C03:library-extern-definition:%s" % (ty.group(1) if ty else "?")
                if sig not in seen:
                    seen.add(sig)
                    chk.violation(sig, "cglue built with features %s: %s (%s)" % (fs or ["default"], d["message"], fn), dict(features=fs, file=fn))
    chk.part("library-own-definitions", feature_sets=len(lib_sets), lint_diagnostics=lib_diag)
    n = len(meta["cases"]) - len(failed_exp)
    chk.coverage.update(programs=n, disagreements_checked=n, evaluations=n, distinct_nontrivial=n)
    chk.coverage["rule"] = ("one program per definition case: single-method traits = 5 receivers x every argument shape, 5 receivers x every return shape, int_result on/off/no_int_result for Result returns "
                            "(thorough: + argument x return cross product and two-argument traits), the multi-method / attribute / consuming / int_result traits of the glue corpus, the lifecycle world "
                            "(groups incl. aliased generic instantiations, all six kinds of wrapped associated types), generic/lifetime/unwrapped/wrap_with traits, and by-value + by-reference "
                            "extern \"C\" probes for every opaque object/group type and every C-compatible wrapper type of the library; the library crate itself is checked with the same lint under default, layout_checks+task+futures and rust_void features")
    chk.coverage["trusted_base"] = ["rustc's improper_ctypes_definitions / improper_ctypes lints (stable toolchain)", "expander links the same cglue-gen code the proc-macros run"]
    for c in meta["cases"][:: max(1, len(meta["cases"]) // 4)][:4]:
        p = os.path.join(out, "defs", "case_%d.rs" % c["case"])
        body = open(p).read().split("pub type AliasRes<T, E> = Result<T, E>;\n")[-1][:700] if os.path.exists(p) else ""
        chk.sample(dict(what="definition case", desc=c["desc"], source=body))
    chk.part("lint", cases=n, lint_diagnostics=len(lint_hits), canary_diagnostics=canary, cargo_check_wall_s=round(rc["wall"], 1))
    chk.floor("canary (known-bad extern fn) flagged by the lint", canary, 2)
    chk.floor("cases", n, 250)
    chk.assumptions += ["the judgement itself is the compiler's (static); this check contributes the executions of the generator and validates every output",
                        "type parameters (the container type CGlueC) are opaque to the lint in generic wrapper functions; concrete opaque object types are covered by the probes"]
