"""C09 — type erasure never makes an object more thread-safe than its contents.
The judgement is the trait solver's; an always-compiling probe *executes* and prints the
complete (conversion rule x payload class x marker) matrix, and safe-code race witnesses run
under Miri's data-race detector."""
import os
import re

import common
import rtrun
from common import Inconclusive, WORK, VERIF

LEVEL = "exploration"

WITNESSES = ["object_ref", "object_box_shared", "object_carcsome", "object_mut_rc", "group_ref"]


def cells(chk):
    pdir = os.path.join(VERIF, "probe")
    r = common.run(["python3", os.path.join(pdir, "gen_matrix.py")], timeout=120)
    if r["rc"] != 0:
        raise Inconclusive("gen_matrix failed: " + r["err"][-1000:])
    common.sync_lock(pdir)
    tdir = os.path.join(WORK, "target-probe")
    b = common.run(["cargo", "build", "--offline", "--target-dir", tdir, "--bin", "matrix"], cwd=pdir, timeout=3000)
    if b["rc"] != 0:
        raise Inconclusive("matrix probe does not build on this tree: " + b["err"][-3000:])
    x = common.run([os.path.join(tdir, "debug", "matrix")], timeout=120)
    recs = common.parse_jsonl(x["out"])
    if not any(r_.get("k") == "done" for r_ in recs):
        raise Inconclusive("matrix probe did not finish: " + x["err"][-1000:])
    return recs


# conversion rules the matrix has rows for: the type each `Opaquable` impl in the source is written for
COVERED_IMPLS = {
    "cglue/src": {"Fwd<T>", "CBox<'a, T>", "CSliceBox<'a, T>", "CGlueObjContainer<T, C, R>", "&'a T", "&'a mut T", "CGlueTraitObj<'a, T, F, C, R>",
                  "CArc<T>", "CArcSome<T>",
                  # not instance handles: markers / the erased target itself
                  "std::marker::PhantomData<T>", "()", "c_void"},
    "cglue-gen/src": {"#opt_name<'cglue_a, CGlueInst, CGlueCtx, #gen_use>", "#cont_name<CGlueInst, CGlueCtx, #gen_use>", "#name<'cglue_a, CGlueInst, CGlueCtx, #gen_use>"},
}


def source_rules():
    """every `Opaquable for <type>` impl header in the tree: a rule the matrix has no row (or candidate row) for makes the run inconclusive"""
    found, unknown = 0, []
    for sub, known in COVERED_IMPLS.items():
        root = os.path.join("/repo", sub)
        for dp, _, fs in os.walk(root):
            for f in fs:
                if not f.endswith(".rs"):
                    continue
                txt = open(os.path.join(dp, f), errors="replace").read()
                for m in re.finditer(r"Opaquable\s+for\s+([^{\n]+?)\s*(?:\{|where|\n)", txt):
                    if txt[txt.rfind("\n", 0, m.start()) + 1:m.start()].lstrip().startswith("//"):
                        continue
                    found += 1
                    if m.group(1).strip() not in known:
                        unknown.append("%s: %s" % (os.path.relpath(os.path.join(dp, f), "/repo"), m.group(1).strip()))
    return found, unknown


CANDIDATE_FOR = {"Pin<&'a mut T>": "cand_pin_mut_ref", "Pin<&'a T>": "cand_pin_ref", "Pin<CBox<'a, T>>": "cand_pin_cbox"}


def run(chk, replay=None):
    recs = cells(chk)
    found, unknown = source_rules()
    unknown = [u for u in unknown if u.split(": ", 1)[1].replace("::core::pin::", "").replace("core::pin::", "") not in CANDIDATE_FOR]
    chk.part("source-rules", opaquable_impl_headers=found, without_matrix_row=unknown)
    if found < 15:
        chk.incon("only %d `Opaquable for` impl headers found in the source (15 on the pinned tree): the rule scan no longer matches the code" % found)
    if unknown:
        chk.incon("conversion rule(s) in the source with no matrix row: %s" % "; ".join(unknown))
    st = [r for r in recs if r.get("k") == "stat"]
    selftest = st[0].get("detector_selftest_ok", 0) if st else 0
    n = viol = opaq = 0
    for c in recs:
        if c.get("k") != "cell":
            continue
        n += 1
        if not c["opaquable"]:
            continue
        opaq += 1
        for marker, o, h in (("Send", c["o_send"], c["h_send"]), ("Sync", c["o_sync"], c["h_sync"])):
            if o and not h:
                viol += 1
                chk.violation("C09:%s:%s:%s" % (c["rule"], c["class"], marker),
                              "converting %s (payload class %s) to opaque form yields a type that is %s although the instance handle is not" % (c["type"], c["class"], marker),
                              dict(rule=c["rule"], payload=c["class"], marker=marker, type=c["type"]))
    chk.part("matrix", cells=n, opaquable_cells=opaq, marker_additions=viol, detector_selftest_ok=selftest)
    for c in [c for c in recs if c.get("k") == "cell"][:: max(1, n // 4)][:4]:
        chk.sample(dict(what="matrix cell", case=c))
    # race witnesses (safe code) under Miri: the failing schedule behind the cells
    pdir = os.path.join(VERIF, "probe")
    mt = os.path.join(WORK, "target-probe-miri")
    raced = 0
    wit = {}
    seeds = range(2) if chk.tier == "quick" else range(8)
    for w in WITNESSES:
        for sd in seeds:
            r = common.run(["cargo", "+nightly", "miri", "run", "--offline", "--target-dir", mt, "--bin", "witness", "--", w], cwd=pdir,
                           env=common.env_with({"MIRIFLAGS": rtrun.MIRIFLAGS + " -Zmiri-ignore-leaks -Zmiri-seed=%d" % (chk.seed * 100 + sd)}), timeout=1200)
            if "Data race detected" in r["err"]:
                wit[w] = "data race detected by Miri (seed %d)" % (chk.seed * 100 + sd)
                raced += 1
                break
            elif "finished without a detected race" in r["out"]:
                wit[w] = "no race in the schedules tried"
            else:
                wit[w] = "witness did not build/run on this tree"
    chk.part("race-witnesses", scenarios=len(WITNESSES), raced_under_miri=raced, outcome=wit)
    chk.coverage["evaluations"] = n * 2
    chk.coverage["distinct_nontrivial"] = opaq * 2
    chk.coverage["exhaustive"] = True
    chk.coverage["rule"] = ("complete matrix: 34 conversion rules (shared/mutable reference, CBox, CSliceBox, CArc, CArcSome, Fwd over each of them, object containers, objects of traits with temporary return storage and of generic traits, generated object types Box/Mut/Ref with and "
                            "without context and with a CArcSome instance, generated group types, cast group) x 4 payload classes {Send,!Send}x{Sync,!Sync} x markers {Send,Sync}; each cell is "
                            "evaluated by the trait solver inside an executed probe (inherent const shadows trait const). A cell violates when the opaque type has a marker its instance handle "
                            "lacks. 22 candidate handle shapes that have no rule on the pinned tree (Pin<..>, Option<..>, Box, Arc, Rc, raw pointers, CVec, slices, tuples; bare, inside Fwd, a container, an object and a group) are probed the same way and are vacuous until a rule appears; the `Opaquable for` headers in the source are counted and one without a row makes the run inconclusive. distinct = (opaquable cell, marker) pairs. Safe-code witnesses of representative cells are run under Miri's race detector")
    chk.floor("matrix cells", n, 90)
    chk.floor("detector self-test", selftest, 1)
    chk.assumptions += ["auto-trait judgements are the compiler's; the probe only reads them out per concrete type",
                        "known cells are instances of upstream issue 18 (FIXME in cglue/src/boxed.rs); each is listed in known_findings.json by exact (rule, class, marker)"]
