"""generated-trait half of C13: int_result traits end to end"""
from props import glueprops
from gluerun import SIGMAP


def run(chk):
    glueprops.corpus_steps(chk, SIGMAP["C13"], only="Ir", part_prefix="int-result-traits")
    p = chk.parts.get("int-result-traits-native", {})
    p["int_result_calls"] = p.get("calls", 0)
    chk.floor("int_result trait calls", int(p.get("calls", 0)), 2000)
