"""C04 — generated C layout is a fixed, order-preserving function of the definitions."""
import os
import re

import common
import gluerun
import rtrun
from common import Inconclusive, WORK, VERIF

LEVEL = "exploration"


def _gen(out, tier):
    os.makedirs(out, exist_ok=True)
    r = common.run(["python3", os.path.join(VERIF, "glue", "layoutgen.py"), out, tier], timeout=600)
    if r["rc"] != 0:
        raise Inconclusive("layoutgen failed: " + r["err"][-2000:])
    common.sync_lock(out)


def _build(out, tdir, toolchain=None, rustflags=None, chk=None):
    base = ["cargo"] + (["+" + toolchain] if toolchain else []) + ["build", "--offline", "--release", "--target-dir", tdir]
    b = os.path.join(tdir, "release", "gluelayout")
    r = common.run(base, cwd=out, env=common.env_with({"RUSTFLAGS": rustflags} if rustflags else None), timeout=3600)
    if not r["timed_out"] and r["rc"] != 0:
        # the probes that name generated multi-trait cast functions may not build on a modified generator:
        # fall back to the core probes (vtable order, group words, sizes) and say so
        first_err = r["err"][-4000:]
        if os.path.exists(b):
            os.remove(b)
        r = common.run(base + ["--no-default-features", "--features", "track-alloc"], cwd=out, env=common.env_with({"RUSTFLAGS": rustflags} if rustflags else None), timeout=3600)
        if r["rc"] == 0 and os.path.exists(b) and chk is not None:
            chk.incon("the probes that name generated items (vtable getters, multi-trait cast functions) do not build on this tree; the size/word probes were run without them: %s" % first_err[-600:])
    if r["timed_out"] or r["rc"] != 0 or not os.path.exists(b):
        raise Inconclusive("layout probe build failed (%s %s): %s" % (toolchain, rustflags, r["err"][-4000:]))
    return b


def published_headers(chk):
    """the other side of the plugin boundary reads the layout from the headers cglue-bindgen publishes:
    every object/container type there must have the size the Rust definitions give it"""
    import json
    import bgrun
    from bgrun import emit, emit_cpp
    # (a) the size model against the real Rust types of examples/plugin-api
    pm = emit.plugin_api_model()
    try:
        t = common.cargo_build(os.path.join(VERIF, "sizeprobe"), "sizeprobe")
        r = common.run([os.path.join(t, "release", "sizeprobe")], timeout=60)
        real = json.loads(r["out"].strip().splitlines()[-1])
    except Exception as e:   # noqa: BLE001
        chk.incon("sizeprobe (real Rust sizes of examples/plugin-api) did not run: %s" % str(e)[:300])
        real = {}
    n = 0
    for key, (sz, al) in real.items():
        kind, name, inst, ctx = key.split(":")
        want = emit.rust_sizes(pm, kind, name, inst, ctx)[0]
        n += 1
        if sz != want or al != 8:
            chk.violation("C04:object-size-vs-documented-structure", "%s: size_of = %d, align %d; vtable pointers + instance + context + temporary storage add up to %d" % (key, sz, al, want), dict(key=key))
    # (b) the published headers
    binary = bgrun.tool()
    # borrowed-return storage with and without a context, alternating
    cases = [("plugin-api", pm, None)] + [("s%d" % i, emit.random_model(chk.seed * 1000 + i, wrapped=True, wrapped_ctx=("" if i % 2 == 0 else "Arc")), None) for i in range(4 if chk.tier == "quick" else 40)]
    compared = members = 0
    for name, model, _ in cases:
        w = os.path.join(WORK, "layout", chk.tier, "hdr-" + name)
        em = emit.emit(model)
        r = bgrun.run_tool(binary, w, em.text, config=None)
        if r["rc"] == 0 and r["text"]:
            mv, k = bgrun.judge_members(em, model, r["text"])
            members += k
            for sig, d in mv[:1]:
                chk.violation("C04:" + sig, "model %s: %s" % (name, d), dict(model=name, mode="C"))
            res = bgrun.drive(w, em, model, r["out_path"], r["text"])
            sv, k = bgrun.judge_sizes(em, model, res.get("sizes", {}), "C")
            compared += k
            for sig, d in sv[:1]:
                chk.violation("C04:" + sig, "model %s: %s" % (name, d), dict(model=name, mode="C"))
        if name == "plugin-api":
            model, emc = emit_cpp.plugin_api_cpp()
        else:
            model, emc, _, _ = emit_cpp.random_cpp(chk.seed * 1000 + int(name[1:]), wrapped=True, wrapped_ctx=("" if int(name[1:]) % 2 == 0 else "Arc"))
        r = bgrun.run_tool_cpp(binary, w + "-cpp", emc.text, config=None)
        if r["rc"] == 0 and r["text"]:
            res = bgrun.drive_cpp(w + "-cpp", emc, model, r["out_path"], r["text"])
            sv, k = bgrun.judge_sizes(emc, model, res.get("sizes", {}), "C++")
            compared += k
            for sig, d in sv[:1]:
                chk.violation("C04:" + sig, "model %s: %s" % (name, d), dict(model=name, mode="C++"))
    chk.part("published-headers", rust_types_measured=n, header_types_compared=compared, container_member_lists_compared=members)
    chk.floor("header types compared with the Rust layout", compared, 8)


def run(chk, replay=None):
    q = chk.tier == "quick"
    out = os.path.join(WORK, "layout", chk.tier)
    _gen(out, chk.tier)
    jobs = []
    b = _build(out, os.path.join(out, "target"), chk=chk)
    jobs.append(lambda: gluerun.run_bin(chk, [b], "probes-stable", ("C04:",)))
    # repr(C) must make the generated structs immune to the compiler's field reordering
    seeds = [chk.seed * 10 + i for i in range(2 if q else 8)]

    def rl(seed):
        try:
            bb = _build(out, os.path.join(out, "target-rl%d" % (seed % 8)), toolchain="nightly", rustflags="-Zrandomize-layout -Zlayout-seed=%d" % seed)
        except Inconclusive as e:
            chk.incon(str(e)[:1500])
            return False
        chk.parts.setdefault("probes-randomized-layout", {}).setdefault("layout_seeds", []).append(seed)
        return gluerun.run_bin(chk, [bb], "probes-randomized-layout", ("C04:",))
    for s in seeds:
        jobs.append(lambda s=s: rl(s))
    rtrun.run_many(chk, jobs, workers=3)

    # independent expansions in fresh processes (fresh hash seeds) must describe the same structs
    exp_t = common.cargo_build(os.path.join(VERIF, "expander"), "expander")
    expander = os.path.join(exp_t, "release", "expander")
    defs = os.path.join(out, "defs.rs")
    import sys
    sys.path.insert(0, os.path.join(VERIF, "glue"))
    import c03gen
    import gen
    text = c03gen.CASE_HEADER + c03gen.world_defs() + c03gen.EXTRA.split("pub extern")[0] + "\n".join(gen.emit_trait(t) for t in gen.corpus(chk.tier, 1)) + "\n"
    with open(defs, "w") as f:
        f.write(text)
    runs = 8 if q else 32
    outs, fulls = [], []
    for i in range(runs):
        r1 = common.run([expander, defs, "--structs"], env=common.env_with({"CARGO_MANIFEST_DIR": out}), timeout=300)
        r2 = common.run([expander, defs], env=common.env_with({"CARGO_MANIFEST_DIR": out}), timeout=300)
        if r1["rc"] != 0 or r2["rc"] != 0:
            chk.incon("expander failed: " + (r1["err"] + r2["err"])[-800:])
            break
        outs.append(r1["out"])
        fulls.append(common.sha(r2["out"]))
    if outs:
        structs = outs[0].splitlines()
        for i, o in enumerate(outs[1:], 1):
            if o != outs[0]:
                a, b2 = outs[0].splitlines(), o.splitlines()
                d = next(((x, y) for x, y in zip(a, b2) if x != y), (str(len(a)), str(len(b2))))
                chk.violation("C04:expansion-not-reproducible", "run 0 and run %d of the generator on the same definitions describe different structs: %s VS %s" % (i, d[0][:400], d[1][:400]), dict(defs=defs))
                break
        chk.part("independent-expansions", processes=len(outs), generated_structs=len(structs), distinct_struct_listings=len(set(outs)), distinct_full_expansions=len(set(fulls)))
        reprc = sum(1 for s in structs if "repr(C)" in s.replace(" ", "") or "repr(transparent)" in s.replace(" ", ""))
        chk.part("independent-expansions", structs_with_repr_c=reprc)
        for s in structs:
            if "repr(C)" not in s.replace(" ", "") and "repr(transparent)" not in s.replace(" ", ""):
                name = s.split(" repr")[0]
                chk.violation("C04:generated-struct-without-repr-c:" + re.sub(r"<.*", "", name.split("::")[-1]), "generated struct has no #[repr(C)]: %s" % s[:300], None)
    published_headers(chk)
    p = chk.parts.get("probes-stable", {})
    words = sum(int(v.get("words_compared", 0)) for k, v in chk.parts.items() if k.startswith("probes"))
    chk.coverage["evaluations"] = words
    chk.coverage["distinct_nontrivial"] = int(p.get("vtables_probed", 0)) + int(p.get("group_objects_probed", 0))
    chk.coverage["rule"] = ("live objects read word by word (as a foreign caller addresses them): every vtable of the probe traits against the getters of its methods in declaration order and its size; "
                            "opaque vs concrete form of each object (size, alignment, words); every group H/Q/M3 x enabled set x {Box,Mut,Ref} x {no context, CArc}: mandatory vtable words in our own "
                            "name order, optional words null/non-null and equal to the vtable a cast exposes, instance word == address the implementor reports, context word == Arc::as_ptr, total size, "
                            "words unchanged by cast+upcast. Repeated on nightly builds with -Zrandomize-layout (one per layout seed). Generator run in fresh processes: identical struct listings. The other side of a plugin boundary reads the layout from the headers cglue-bindgen "
                            "publishes: sizeof of every object and container type in processed C and C++ headers (plugin-api + seeded models with borrowed-return storage) against the size the Rust "
                            "definitions give it; that size model is itself checked against size_of of the real examples/plugin-api types. "
                            "evaluations = words compared; distinct = objects/vtables probed")
    chk.floor("vtables probed", int(p.get("vtables_probed", 0)), 15)
    chk.floor("group objects probed", int(p.get("group_objects_probed", 0)), 100)
    chk.floor("randomized-layout builds", len(chk.parts.get("probes-randomized-layout", {}).get("layout_seeds", [])), 1)
    chk.floor("independent expansions", chk.parts.get("independent-expansions", {}).get("processes", 0), 4)
