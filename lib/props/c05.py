"""C05 — objects work across separately compiled modules and compiler versions."""
import os

import common
import gluerun
import rtrun
from common import Inconclusive, WORK, VERIF

LEVEL = "exploration"

BUILDS = {
    "stable-debug": dict(tc=None, release=False, flags=""),
    "nightly-release-rl": dict(tc="nightly", release=True, flags="-Zrandomize-layout -Zlayout-seed=%d"),
    # the library's `rust_void` feature: the erased type is () (zero-sized) instead of a one-byte type; both modules of a pair use the same setting
    "stable-debug-rustvoid": dict(tc=None, release=False, flags="", feat="xapi/rust_void"),
    "1.98.1-release": dict(tc="1.98.1", release=True, flags=""),
    "nightly-2026-08-21-debug-rl": dict(tc="nightly-2026-08-21", release=False, flags="-Zrandomize-layout -Zlayout-seed=%d"),
    "stable-release": dict(tc=None, release=True, flags=""),
    "nightly-debug": dict(tc="nightly", release=False, flags=""),
    "1.98.1-debug": dict(tc="1.98.1", release=False, flags=""),
    "nightly-2026-08-21-release": dict(tc="nightly-2026-08-21", release=True, flags=""),
    "nightly-release-rustvoid": dict(tc="nightly", release=True, flags="", feat="xapi/rust_void"),
}


def build(name, seed):
    b = BUILDS[name]
    xdir = os.path.join(VERIF, "xmod")
    common.sync_lock(xdir)
    tdir = os.path.join(WORK, "target-xmod-" + name)
    cmd = ["cargo"] + (["+" + b["tc"]] if b["tc"] else []) + ["build", "--offline", "--target-dir", tdir] + (["--release"] if b["release"] else []) + (["--features", b["feat"]] if b.get("feat") else [])
    flags = (b["flags"] % (seed % 1000)) if "%d" in b["flags"] else b["flags"]
    env = {"XMOD_RUSTC": (b["tc"] or "stable") + ("-release" if b["release"] else "-debug") + (" " + flags if flags else "")}
    if flags:
        env["RUSTFLAGS"] = flags
    r = common.run(cmd, cwd=xdir, env=common.env_with(env), timeout=3600)
    sub = "release" if b["release"] else "debug"
    host, plug = os.path.join(tdir, sub, "xhost"), os.path.join(tdir, sub, "libxplugin.so")
    if r["rc"] != 0 or not os.path.exists(host) or not os.path.exists(plug):
        raise Inconclusive("module build %s failed: %s" % (name, r["err"][-3000:]))
    return host, plug


def run(chk, replay=None):
    q = chk.tier == "quick"
    names = list(BUILDS)[:3] if q else list(BUILDS)
    built = {}
    errs = []

    def one(n):
        try:
            built[n] = build(n, chk.seed)
        except Inconclusive as e:
            errs.append(str(e))
    rtrun.run_many(chk, [lambda n=n: one(n) for n in names], workers=4)
    for e in errs:
        chk.incon(e[:1500])
    rv = lambda n: "rustvoid" in n
    pairs = [(h, p) for h in built for p in built if rv(h) == rv(p) and (h != p or not q or rv(h))]
    jobs = []
    for h, p in pairs:
        part = "host[%s] x plugin[%s]" % (h, p)
        jobs.append(lambda h=h, p=p, part=part: gluerun.run_bin(chk, [built[h][0], built[p][1], str(chk.seed), str(150 if q else 500)], part, ("C05:",), timeout=1800))
    rtrun.run_many(chk, jobs)
    # a module that is not Rust at all: an executor speaking the C ABI of the waker types polls a Future object through its vtable entry
    from props import rtprops
    rtprops.execute(chk, "fwaker", [dict(instr="release", part="foreign-executor", count=20, args=dict(pid="C05")),
                                    dict(instr="debug", part="foreign-executor-debug", count=5, args=dict(pid="C05"))])
    chk.floor("polls driven by a foreign executor", int(chk.parts.get("foreign-executor", {}).get("foreign_executor_rounds", 0)), 10)
    hist = sum(int(v.get("histories", 0)) for k, v in chk.parts.items() if k.startswith("host["))
    chk.coverage["evaluations"] = hist
    chk.coverage["distinct_nontrivial"] = sum(int(v.get("distinct_cases", 0)) for k, v in chk.parts.items() if k.startswith("host["))
    chk.coverage["rule"] = ("host binary dlopen()s a plugin cdylib built separately (own std, own tracking allocator, own payload registry); seeded histories over plugin-made objects: factory with "
                            "context -> owned store objects, groups (cast to optional traits, clone in the host, cast back), borrowed child, consuming call; store calls with slices/str/callback/"
                            "iterator/struct/Option/int-result; plugin-made CVec grown, written and released by the host and host-made CVec consumed by the plugin; host-made store consumed by "
                            "the plugin; every digest compared with the same history on objects made inside the host; both allocators must see no foreign or mis-sized free, the plugin no "
                            "leftover instance; a plugin-made object that is the only holder of its context is consumed by a by-value call: the context must die in the caller's frame, not under "
                            "the other module's wrapper (backtrace of the payload's Drop); a Future object polled through its vtable entry by a hand-written executor that speaks the C ABI of CRefWaker/CRawWaker with its own opaque waker blob (every clone/wake/release must reach the executor's functions). Pairs drawn from {stable 1.95, nightly 1.97, 1.98.1, nightly-2026-08-21} x {debug, release} x randomized repr(Rust) layout, plus pairs built with the library's rust_void feature (erased type is zero-sized). evaluations = histories")
    chk.part("matrix", builds=sorted(built), ordered_pairs=len(pairs))
    chk.floor("module pairs", len(pairs), 2)
    chk.floor("histories", hist, 200)
    tracking = min([int(v.get("plugin_tracking_active", 0)) for k, v in chk.parts.items() if k.startswith("host[")] or [0])
    chk.floor("plugin allocator tracking active", tracking, 1)
    chk.floor("consuming calls on a sole-context object judged by the backtrace oracle", sum(int(v.get("consuming_calls_with_sole_context", 0)) for k, v in chk.parts.items() if k.startswith("host[")), 50)
    chk.assumptions += ["an owned ReprCString has no drop function and is therefore not among the values C05 lists; the harness passes text through caller-owned buffers",
                        "the open C07 finding (context clone left behind by borrowed-child calls) is tolerated in the context-count cross-check of this property"]
