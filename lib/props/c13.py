"""C13 — integer result codes: zero means success and the output is initialised."""
from props import rtprops

LEVEL = "exploration"


def library_steps(chk):
    q = chk.tier == "quick"
    steps = [
        dict(instr="release", part="native-library", count=1 << 20 if q else 1 << 22, args=dict(span=65536, rounds=200)),
        dict(instr="debug", part="native-library-debug", count=1000, args=dict(span=4096, rounds=50)),
        dict(instr="miri", part="miri-library", count=20, args=dict(span=60, rounds=4)),
    ]
    if not q:
        steps += [dict(instr="release", part="native-all-i32-codes", count=0, shards=16, args=dict(what="allcodes")),
                  dict(instr="valgrind", part="valgrind-library", count=1000, args=dict(span=2000, rounds=20))]
    return steps


def run(chk, replay=None):
    rtprops.execute(chk, "c13", library_steps(chk))
    try:
        from props import glue_c13
        glue_c13.run(chk)
    except ImportError:
        chk.assumptions.append("generated-trait half (int_result methods end-to-end) not built yet")
    ev = 0
    for part, st in chk.parts.items():
        for k in ("os_codes_checked", "os_codes_checked_exhaustive", "non_os_errors_checked", "payload_path_rounds", "int_result_calls"):
            ev += int(st.get(k, 0)) if isinstance(st, dict) else 0
    chk.coverage["evaluations"] = ev
    chk.coverage["distinct_nontrivial"] = ev  # every code / payload round is a distinct input
    chk.coverage["rule"] = ("io::Error codes: all in +-65536, powers of two +-1, extremes, seeded random (thorough: all 2^32 i32 codes), non-OS errors of 20 ErrorKinds; "
                            "payload paths: Ok with Tracked payload through into_int_out_result/from_int_result, Err of io/()/fmt errors with a *live sentinel* in the slot "
                            "(must stay untouched by encoder and decoder), plain into_int_result / from_int_result_empty. Every code is a distinct input")
    chk.floor("OS codes", chk.parts.get("native-library", {}).get("os_codes_checked", 0), 100000)
    chk.floor("payload rounds", chk.parts.get("native-library", {}).get("payload_path_rounds", 0), 100)
    chk.floor("miri payload rounds", chk.parts.get("miri-library", {}).get("payload_path_rounds", 0), 2)
