"""C19 — a waker crossing the boundary wakes the original and is released once."""
import os

import common
import gluerun
import rtrun
from common import VERIF, WORK
from props import rtprops

LEVEL = "exploration"


def no_std_build(chk):
    """the library built without its default features (no_std + task): concurrent clone / wake / drop of a handle retained from a poll"""
    q = chk.tier == "quick"
    ndir = os.path.join(VERIF, "nostd")
    t = common.cargo_build(ndir, "nostd")
    b = os.path.join(t, "release", "nostdwaker")
    gluerun.run_bin(chk, [b, "8", "20000" if q else "200000", "3" if q else "8"], "no-std-native", ("C19:",), timeout=1200)
    raced = 0
    seeds = range(3) if q else range(12)
    for sd in seeds:
        r = common.run(["cargo", "+nightly", "miri", "run", "--offline", "--target-dir", os.path.join(WORK, "target-nostd-miri"), "--", "3", "12", "1"], cwd=ndir,
                       env=common.env_with({"MIRIFLAGS": rtrun.MIRIFLAGS + " -Zmiri-seed=%d" % (chk.seed * 100 + sd)}), timeout=1200)
        if "Data race detected" in r["err"] or "Undefined Behavior" in r["err"]:
            first = next((l for l in r["err"].splitlines() if l.startswith("error:")), "error")
            chk.violation("C19:no-std-build:miri", "no_std build, 3 threads cloning/dropping one retained handle under Miri (seed %d): %s" % (chk.seed * 100 + sd, first[:300]), dict(miri_seed=chk.seed * 100 + sd))
            raced += 1
            break
        if '"k":"done"' not in r["out"]:
            chk.incon("no_std waker workload did not finish under Miri: %s" % r["err"][-400:])
            break
        for rec in common.parse_jsonl(r["out"]):
            if rec.get("k") == "violation":
                chk.violation(rec["sig"], rec["detail"] + " (under Miri)", dict(miri_seed=chk.seed * 100 + sd))
    chk.part("no-std-miri", schedule_seeds=len(list(seeds)), ub_reports=raced)
    chk.floor("no_std handle operations", int(chk.parts.get("no-std-native", {}).get("no_std_handle_ops", 0)), 100000)


def run(chk, replay=None):
    q = chk.tier == "quick"
    steps = [
        dict(instr="release", part="native-exhaustive", count=0, shards=16, args=dict(what="exhaustive", depth=5 if q else 6)),
        dict(instr="release", part="native-random-threaded", count=3000 if q else 60000, shards=8, shard_arg=False, args=dict(what="random", maxlen=40)),
        dict(instr="release", part="native-upgrade-waker", count=1, args=dict(upgrade=1)),
        dict(instr="miri", part="miri-upgrade-waker", count=1, args=dict(upgrade=1)),
        dict(instr="release", part="native-race-release", count=1, shards=8, shard_arg=False, args=dict(race=4000 if q else 60000)),
        dict(instr="miri", part="miri-race-release", count=1, shards=8 if q else 64, shard_arg=False, miri_seed_base=chk.seed * 1000 + 500, args=dict(race=2)),
        dict(instr="debug", part="native-debug", count=500 if q else 5000, args=dict(depth=3, maxlen=30)),
        dict(instr="miri", part="miri-exhaustive", count=0, shards=16, args=dict(what="exhaustive", depth=3)),
        dict(instr="miri", part="miri-threaded", count=8 if q else 30, shards=8 if q else 64, shard_arg=False, miri_seed_base=chk.seed * 1000,
             args=dict(what="random", maxlen=14)),
    ]
    if not q:
        steps += [dict(instr="asan", part="asan", count=5000, args=dict(depth=4, maxlen=40)),
                  dict(instr="tsan", part="tsan", count=4000, shards=4, shard_arg=False, args=dict(what="random", maxlen=40))]
    rtprops.execute(chk, "c19", steps)
    no_std_build(chk)
    rtprops.summarize(chk, ("scripts", "race_rounds"), ("distinct_cases",))
    chk.coverage["rule"] = ("scripts over {clone i->j, wake i, wake_by_ref i, drop i, send-to-thread i, end-of-poll} on 3 slots + the borrowed cx.waker(), interpreted inside a "
                            "Future/Stream/Sink polled through an opaque CGlue object, remainder run after the poll on retained wakers; every script up to the exhaustive depth "
                            "(14-symbol alphabet), seeded random scripts with helper threads; half of the scripts end with the caller dropping its own handles first. "
                            "wakers whose data pointer is a small integer incl. null; a yield-once future behind one, two and three opaque objects polled with the context passed through; "
                            "a caller's waker whose clone() differs from itself (borrowed waker upgrading to an owned one): retained handles must wake and release the clone; "
                            "a family of 2-3 handles sharing one foreign-side waker released at the same instant from as many threads (drop / wake by value in every pattern), thousands of rounds "
                            "natively and under Miri's scheduler with one seed per process; the same concurrent release on the library's no_std build (default features off), natively and under Miri. distinct = scripts in which at least one operation executed")
    chk.floor("scripts with executed ops", chk.parts.get("native-exhaustive", {}).get("scripts_nontrivial", 0), 10000)
    chk.floor("miri scripts", chk.parts.get("miri-exhaustive", {}).get("scripts", 0), 500)
    chk.floor("upgrade-on-clone waker cases", chk.parts.get("native-upgrade-waker", {}).get("upgrade_waker_cases", 0), 4)
    chk.floor("concurrent release rounds", chk.parts.get("native-race-release", {}).get("race_rounds", 0), 5000)
    chk.floor("miri threaded scripts", chk.parts.get("miri-threaded", {}).get("scripts", 0), 30)
    chk.assumptions += ["the caller's waker is an Arc<impl Wake>; its strong count is read through a Weak",
                        "Miri runs with -Zmiri-disable-stacked-borrows"]
