#!/usr/bin/env python3
"""Regenerates /verif/MANIFEST.json from the table below (single source of truth)."""
import json
import os

VERIF = os.path.dirname(os.path.dirname(os.path.abspath(__file__)))

CLAIMED = {
    "C17": dict(cat="exploration", design="§5 C17", engine="bindgen",
                text="cglue-bindgen runs unmodified on headers from a calibrated emulator of cbindgen's output shape (API models: plugin-api + seeded models incl. name clashes, consuming receivers, function-pointer arguments, mixed contexts, wrapped returns emitted as cbindgen's context-generic `*_Context` instantiations, 10 tool configurations); for every root type mock vtables log root/trait/slot/container/argument checks and every emitted wrapper is called with sentinel arguments in a C driver under ASan+UBSan; the log is judged offline (slot identity, argument order, result, ownership counters, release order, ordering of the context guard, completeness); sizeof of every header type is compared with the Rust layout; the header's callback/iterator helper macros are driven with 0..1000 items. The same models are emitted in cbindgen's C++ shape and every member-function wrapper is driven by one C++ translation unit per root type (g++/clang++, c++11/17).",
                note="Trusts the cbindgen emulators (C and C++ shape, calibrated against examples/pregen-headers/bindings.h and bindings.hpp).",
                tech="runtime monitoring: mock-vtable call logs from a generated C driver + offline checker"),
    "C18": dict(cat="exploration", design="§5 C18", engine="bindgen",
                text="For every emulated header: 8-16 runs in fresh processes must be byte-identical, gcc -std=c99 and clang must accept a TU that only includes the output, every injected foreign declaration (adversarially named) must be present verbatim and in order; command-line cases check the `--` split, -o/--output capture, +nightly, the config source and regeneration into an existing longer file through a logging fake cbindgen/rustup. The same for headers in cbindgen's C++ shape (g++/clang++ -std=c++11, thorough c++17), incl. headers without any CGlue construct and headers that only use the foreign TypeLayout.",
                note="Trusts the cbindgen emulators (C and C++ shape).",
                tech="runtime monitoring: repeated tool executions + compilers as acceptors + text oracles"),
    "C05": dict(cat="exploration", design="§5 C05", engine="xmod",
                text="A host binary dlopen()s a plugin cdylib built separately by another compiler version / optimisation level / repr(Rust) layout seed, each with its own tagging allocator and payload registry (plus module pairs built with the library's rust_void feature, where the erased type is zero-sized); seeded lifecycle histories over plugin-made objects are compared with the same histories on host-made objects, and both allocators watch for foreign or mis-sized frees and leftover instances; foreign CVecs are edited with every growing/shrinking operation in both directions, bare CArcs are cloned and released on either side in every order, a Future object is polled through its vtable entry by a hand-written executor speaking the C ABI of the waker types; and an object that is the sole holder of a library-like context is consumed across the boundary under a backtrace oracle.",
                note="Four installed toolchains only; both modules share the OS allocator underneath, ownership is observed by the per-module tracking tables.",
                tech="runtime monitoring: cross-module differential histories + per-module tagging allocators"),
    "C16": dict(cat="exploration", design="§5 C16", engine="cview",
                text="A C program compiled by gcc and clang with ASan+UBSan includes only the published declarations (cview/cglue_rt.h) and operates values created by Rust - and forges values consumed by Rust - over seeded operation sequences; Rust-side drop/refcount counters and C-side models are compared after every step; debug and release (thorough: randomized repr(Rust) layout) builds of the library; iterators over boxed items with an output-only slot; callbacks/iterators built with the helper macros of the processed header; a C-made arc that issues one handle per reference; C-built text with NUL bytes read as &str; the C++ bridges of the processed .hpp (range-for over CIterator with arbitrary end codes, CPPIterator, callbacks from vector/lambda, slices from strings) run under ASan+UBSan.",
                note="Trusts the hand-written header as the published C view (cross-checked against examples/pregen-headers).",
                tech="runtime monitoring: C driver over published declarations + ASan/UBSan + counter oracles"),
    "C20": dict(cat="exploration", design="§5 C20", engine="glue",
                text="Generated (definition, single-edit variant) pairs are expanded by the real macros with layout_checks on; the library's compare_layouts is executed on every pair in both directions, on self-pairs and with a missing side, and compared with an expectation computed from our own C-signature tables; VerifyLayout::and is run on all nine pairs. Base traits include entries taking the library's generic FFI types (OpaqueCallback/CIterator/CSliceRef/CSliceMut/COption<T>: element-type edits), wrapped returns, group-internal edits, and a four-parameter trait expanded eight times from the identical definition (all must be Valid).",
                note="Trusts the generator's C-signature table as the definition of 'C-visible interface'.",
                tech="runtime monitoring: executed comparison over generated definition pairs with a model oracle"),
    "C09": dict(cat="exploration", design="§5 C09", engine="probe",
                text="An always-compiling probe is executed and prints the complete auto-trait matrix: 28 erasure rules + 5 pointer-vs-std-handle rows + 22 candidate handle shapes that have no rule on the pinned tree (vacuous until one appears), each x 4 payload classes x 2 markers (finite, enumerated completely); every cell where the opaque type has a marker its instance handle lacks is a violation unless listed (94 known cells = upstream issue 18). The `Opaquable for` impl headers in the source are counted; a rule without a row makes the run inconclusive. Safe-code race witnesses for the rule families run under Miri's data-race detector and do race.",
                note="The judgement per cell is the trait solver's (static); the matrix is read out at run time. Witnesses cover rule families, not every cell.",
                tech="exhaustive finite matrix read out by an executed probe + Miri data-race witnesses"),
    "C03": dict(cat="translation_validation", design="§5 C03", engine="expander",
                text="Output validation of generator runs: the real generator (cglue-gen linked as a library into /verif/expander) is executed on ~400 (quick) / ~1000 (thorough) definition cases over the bounded grammar; every output is compiled as plain source with improper_ctypes_definitions/improper_ctypes denied, together with by-value and by-reference extern \"C\" probes of every opaque object/group type and every library wrapper type. The library crate itself is checked with the same lints under three feature sets. A canary proves the lint is alive in the same build. The judgement is the compiler's (static); the executions and their validation are ours.",
                note="Trusts rustc's FFI-safety lints; generic container parameters are opaque to the lint inside generic wrappers (covered by concrete probes).",
                tech="runtime monitoring of generator executions: per-output validation by the compiler's FFI lint"),
    "C04": dict(cat="exploration", design="§5 C04", engine="glue",
                text="Live vtables, objects and groups are read word by word (the foreign caller's view) and compared with expectations computed by the generator of the probes (declaration order, own name sort, enabled sets); repeated on nightly -Zrandomize-layout builds; the code generator is run in fresh processes and must describe identical structs; sizeof of every type in the processed C and C++ headers, and the member list of every container in the processed C header, are compared with the Rust layout (size model checked against the real examples/plugin-api types).",
                note="Trusts size_of/align_of and pointer-sized word reads of repr(C) objects.",
                tech="runtime monitoring: raw-word probes of live objects + repeated generator executions"),
    "C01": dict(cat="exploration", design="§5 C01", engine="glue",
                text="Differential runtime monitoring of generated glue: a generated corpus of traits (one per argument/return shape, multi-method, attribute, consuming, int_result traits) is compiled with the real macros; the same generic driver runs seeded call histories on the opaque object (Box/Mut/Ref/CArcSome, with/without context) and directly on the implementor, comparing return digests, the implementor's event log and every instance state after each call; the ::ext Sink/Stream objects are driven through every short op sequence against the value itself; objects and groups over Fwd<&mut T> (#[cglue_forward]) with overridden provided methods. Native, Miri (by-ref subset), ASan.",
                note="Trusts the recording implementor and digest functions in /verif/gluert; grammar limited to shapes cglue accepts (calibrated on the unchanged tree).",
                tech="runtime monitoring: differential execution of generated programs + event-log comparison"),
    "C02": dict(cat="exploration", design="§5 C02", engine="glue",
                text="The implementor records content digest, length and address of every argument it receives and returns state-derived values out of its own storage; the caller compares both directions against what it sent and against a direct call, including writes through &mut, callback/iterator item sequences and the results/state of ::ext Sink/Stream objects. Native, Miri, ASan.",
                note="Trusts the digest functions; addresses compared as integers.",
                tech="runtime monitoring: argument/return digests and addresses recorded on both sides"),
    "C06": dict(cat="exploration", design="§5 C06", engine="glue",
                text="Generated straight-line lifecycle programs with a generator-side ownership model; a drop registry and a tracking allocator observe every instance and block. Native, Miri (no by-value crossings), ASan.",
                note="Trusts the generator's ownership model and the Tracked registry.",
                tech="runtime monitoring: drop registry + tracking allocator over generated lifecycle programs"),
    "C07": dict(cat="exploration", design="§5 C07", engine="glue",
                text="Context reference count compared with a model of live context-holding objects after every step of generated lifecycle programs and after the last drop; a backtrace oracle for consuming calls; a foreign handle-per-reference context (clone_fn issues a new handle, drop_fn retires exactly one: no double retire, no clone through a retired handle, all retired at the end); one open finding (borrowed-child context leak) keyed by exact signature.",
                note="Trusts Arc::strong_count and the generator's model.",
                tech="runtime monitoring: reference-count oracle against a model"),
    "C08": dict(cat="exploration", design="§5 C08", engine="glue",
                text="Exhaustive enumeration of cast sites (enabled set x requested subset x operation x container) for two groups incl. aliased generic instantiations, each executed with dispatch and ownership oracles; lifetime bounds inside cast lists; groups over Fwd<&mut T> against the forward list of cglue_impl_group! (six implementors whose owned/forward lists differ in every way).",
                note="Restricted to combinations cglue accepts at compile time.",
                tech="runtime monitoring: exhaustive generated cast sites with event-log dispatch oracle"),
    "C10": dict(cat="exploration", design="§5 C10",
                text="Model-based runtime monitoring: a sequential reference model of handle counts is stepped in lock-step with real CArc/CArcSome pools over bounded-exhaustive and seeded histories, forged handles with counting clone/drop stubs (shared cell, one handle per reference, no drop function) observe which functions the library calls, payloads aligned to 16..4096 bytes, Send/Sync parity with Arc read out by a probe, handles dropped by an unwinding scope, and concurrent workloads run under Miri's data-race detector (one schedule seed per process) and TSan. Held on the executions driven, not a proof.",
                note="Trusts: Weak::strong_count as the real count; Miri with Stacked Borrows disabled; the tracking allocator and Tracked registry in /verif/vmon.",
                tech="runtime monitoring: reference-model differential + Miri/ASan/TSan + counting stubs"),
    "C11": dict(cat="exploration", design="§5 C11",
                text="Lock-step differential of CVec against a model Vec over bounded-exhaustive and random op histories for four element types, with drop-exactly-once registry, free-layout checks by a tracking allocator, a forged CVec over a private arena (counting reserve_fn/drop_fn), under native, Miri, ASan and valgrind.",
                note="Trusts the harness model and the tracking allocator; Miri with Stacked Borrows disabled.",
                tech="runtime monitoring: differential against Vec + allocator/registry monitors + Miri/ASan/valgrind"),
    "C12": dict(cat="exploration", design="§5 C12",
                text="Round-trip monitors for slices (every length in range, four element types, address/len/content/write-through), the UTF-8 decision compared with core::str::from_utf8 exhaustively for all byte strings up to length 3 and a boundary alphabet beyond, and every variant/accessor of COption/CResult/CTup with drop-tracked payloads, clone/clone_from over every variant pair; natively, under Miri and ASan.",
                note="Trusts core::str::from_utf8 as the UTF-8 reference.",
                tech="runtime monitoring: exhaustive small-domain round trips + reference validator + Miri/ASan"),
    "C13": dict(cat="exploration", design="§5 C13",
                text="Encode/decode monitors over OS error codes (quick: +-65536 and boundaries; thorough: all 2^32), non-OS errors, drop-tracked success payloads and a live sentinel in the output slot on the Err path (must stay untouched), natively, under Miri (uninit slot reads are errors) and valgrind; plus the same end-to-end through generated int_result trait methods, incl. direct calls of the vtable entries with a pre-loaded output slot.",
                note="Trusts the Tracked registry; Miri with Stacked Borrows disabled.",
                tech="runtime monitoring: sentinel slots + drop registry + Miri uninit detection"),
    "C14": dict(cat="exploration", design="§5 C14",
                text="Every string over {NUL,a,é,€,😀} up to 5-6 symbols through all three constructors, checked for content, terminator, eq/hash/clone, exactly one live block of len+1 bytes, free layout and leaks by a tracking allocator (release and debug builds), and for out-of-bounds reads/leaks by Miri, ASan and valgrind; with the library's serde feature, ~1000 strings built by deserialisation (transient/owned/borrowed strings, JSON from memory and reader) and serialised again.",
                note="Trusts the tracking allocator's live table; debug build + Miri are the leak oracles (release may elide a leaked Box).",
                tech="runtime monitoring: exhaustive small alphabet + allocator accounting + Miri/ASan/valgrind"),
    "C15": dict(cat="exploration", design="§5 C15",
                text="Exhaustive grid of item counts x stop positions x entry points x sinks (incl. zero-sized Extend collections) for callbacks, and n x advance x non-fused gap for CIterator, with sequence-numbered drop-tracked items; natively, under Miri and ASan; the C helper macros and the C++ bridges of the processed headers run the same way.",
                note="Trusts the harness sinks/sources.",
                tech="runtime monitoring: exhaustive grid with sequence + ownership oracles, Miri/ASan"),
    "C19": dict(cat="exploration", design="§5 C19",
                text="A Future/Stream/Sink (poll_ready, a parked poll_flush, poll_close) polled through an opaque CGlue object interprets waker scripts (clone/wake/wake_by_ref/drop/send-to-thread, inside and after the poll); a counting Arc waker is the oracle for wake counts and for the reference count never dropping below the caller's own handles and returning to baseline. All scripts up to depth 5-6 natively, depth 3 under Miri, threaded scripts under Miri schedule seeds and TSan; the no_std build of the library under concurrent clone/wake/drop of a retained handle (native + Miri).",
                note="Trusts Arc strong counts read through a Weak; Miri with Stacked Borrows disabled.",
                tech="runtime monitoring: scripted workload + reference-count oracle + Miri/ASan/TSan"),
}

PENDING = {}


def main():
    props = [json.loads(l) for l in open(os.path.join(VERIF, "properties.jsonl"))]
    checks = []
    na = []
    for p in props:
        pid = p["id"]
        if pid in CLAIMED:
            c = CLAIMED[pid]
            checks.append(dict(
                property_id=pid,
                quick_cmd="./check %s --tier quick" % pid,
                thorough_cmd="./check %s --tier thorough" % pid,
                evidence_file="evidence/%s.json" % pid,
                replay_cmd_template="./check %s --replay {path}" % pid,
                engine=c.get("engine", "rt"),
                level_claimed=dict(category=c["cat"], text=c["text"], design_ref=c["design"]),
                level_note=c["note"],
                technique=c["tech"],
            ))
        else:
            na.append(dict(property_id=pid, reason=PENDING.get(pid, "check not built yet in this round (runtime-monitoring design exists in DESIGN.md §5; it is not claimed until the machinery is committed)")))
    m = dict(
        version=1,
        setup_cmd="./setup.sh",
        hooks=dict(guard="none", enable="no source hooks: every observation point is reachable from outside the crate (see DESIGN.md §3)",
                   baseline_off_cmd="cd /repo && cargo test --workspace --no-fail-fast --offline",
                   source_commits=[], add_only=True),
        engines=[
            dict(name="bindgen", path="bindgen/", serves_properties=["C04", "C15", "C16", "C17", "C18"], kind_free_text="cbindgen output-shape emulator, fake cbindgen/rustup, C driver generator and offline oracle for cglue-bindgen"),
            dict(name="xmod", path="xmod/", serves_properties=["C05"], kind_free_text="shared API crate, plugin cdylib and host binary built by different toolchains"),
            dict(name="cview", path="cview/", serves_properties=["C16"], kind_free_text="C header of the published runtime-type declarations, C driver, Rust staticlib of constructors/consumers/counters"),
            dict(name="probe", path="probe/", serves_properties=["C09"], kind_free_text="auto-trait matrix probe and safe-code race witnesses"),
            dict(name="expander", path="expander/", serves_properties=["C03", "C04"],
                 kind_free_text="binary linking cglue-gen as a library: runs the real code generator on definition files and prints the expansion"),
            dict(name="glue", path="glue/", serves_properties=["C01", "C02", "C06", "C07", "C08", "C13"],
                 kind_free_text="python generators of Rust programs using the real cglue macros (trait corpus, lifecycle programs) + gluert support crate; built and run natively, under Miri and ASan"),
            dict(name="rt", path="rt/", serves_properties=["C01", "C02", "C10", "C11", "C12", "C13", "C14", "C15", "C19"],
                 kind_free_text="Rust harness binary driving the runtime library under native/Miri/ASan/TSan/valgrind with monitors from vmon/"),
        ],
        checks=checks,
        notes="Three-valued verdicts: exit 0 held / exit 1 VIOLATION / exit 2 INCONCLUSIVE. Genuine defects repaired in /repo by 'fix:' commits are listed in known_findings.json.",
        not_applicable=na,
    )
    with open(os.path.join(VERIF, "MANIFEST.json"), "w") as f:
        json.dump(m, f, indent=1, ensure_ascii=False)
        f.write("\n")


if __name__ == "__main__":
    main()
