#!/usr/bin/env python3
"""Confirm a seeded mutant produced by a sub-agent and run our checks against it.
  seedtest.py confirm <PID> <n>          -- in the agent's worktree /tmp/wt-<PID>: patch applies, the
                                           repository's tests still pass with it, the demo fails
                                           with it and passes without; then copy into /verif/seeded/
  seedtest.py check <seeded-dir> [checks] -- apply patch.diff to /repo, run ./check <ID> (quick) for
                                           each listed check (default: the property in meta.json),
                                           undo the patch, record the outcome in meta.json
"""
import json
import os
import shutil
import subprocess
import sys
import time

VERIF = os.path.dirname(os.path.dirname(os.path.abspath(__file__)))


def sh(cmd, cwd=None, timeout=3600, env=None):
    e = dict(os.environ)
    e["CARGO_NET_OFFLINE"] = "true"
    if env:
        e.update(env)
    p = subprocess.run(cmd, cwd=cwd, shell=isinstance(cmd, str), capture_output=True, text=True, timeout=timeout, env=e)
    return p.returncode, p.stdout + p.stderr


def confirm(pid, n):
    wt = "/tmp/wt-%s" % pid
    src = os.path.join(wt, "seeded_out", "m%s" % n)
    meta = json.load(open(os.path.join(src, "meta.json")))
    patch = os.path.join(src, "patch.diff")
    res = {}
    rc, out = sh(["git", "status", "--porcelain", "--untracked-files=no"], cwd=wt)
    if out.strip():
        print("worktree not clean:", out)
        return 1
    demo_cmd = meta.get("demo_cmd", "cd %s/demo && cargo run --offline" % src)
    # sub-agents sometimes append prose after the command ("cmd   (needs gcc; ...)")
    import re
    demo_cmd = re.sub(r"\s{2,}\(.*$", "", demo_cmd, flags=re.S).strip()
    meta["demo_cmd"] = demo_cmd
    # 1. demo on the clean tree
    rc0, out0 = sh(demo_cmd, cwd=wt)
    res["demo_clean_rc"] = rc0
    # 2. apply
    rc, out = sh(["git", "apply", patch], cwd=wt)
    if rc != 0:
        print("patch does not apply", out)
        return 1
    try:
        rc, out = sh("cargo test --workspace --no-fail-fast --offline 2>&1 | grep -E '^test result' ", cwd=wt)
        passed = sum(int(l.split()[3]) for l in out.splitlines() if l.startswith("test result"))
        failed = sum(int(l.split()[5]) for l in out.splitlines() if l.startswith("test result"))
        res["tests_with_mutant"] = dict(passed=passed, failed=failed)
        rc1, out1 = sh(demo_cmd, cwd=wt)
        res["demo_mutant_rc"] = rc1
        res["demo_mutant_tail"] = out1[-600:]
    finally:
        sh(["git", "checkout", "--", "."], cwd=wt)
    ok = res["demo_clean_rc"] == 0 and res["demo_mutant_rc"] != 0 and res["tests_with_mutant"]["failed"] == 0 and res["tests_with_mutant"]["passed"] >= 68
    res["confirmed"] = ok
    print(json.dumps(res, indent=1)[:1500])
    if not ok:
        return 1
    dst = os.path.join(VERIF, "seeded", "%s-m%s" % (pid, n))
    if os.path.exists(dst):
        shutil.rmtree(dst)
    os.makedirs(dst)
    shutil.copy(patch, os.path.join(dst, "patch.diff"))
    if os.path.isdir(os.path.join(src, "demo")):
        shutil.copytree(os.path.join(src, "demo"), os.path.join(dst, "demo"), ignore=shutil.ignore_patterns("target", ".cargo"))
    meta["property"] = pid
    meta["confirmation"] = dict(ran="patch applied in a scratch worktree; `cargo test --workspace --no-fail-fast --offline` there; demo run with and without the patch", **res)
    meta["note"] = "demo path dependencies point at the scratch worktree (%s); substitute /repo to re-run" % wt
    with open(os.path.join(dst, "meta.json"), "w") as f:
        json.dump(meta, f, indent=1)
    print("stored", dst)
    return 0


def check(sdir, checks):
    sdir = os.path.abspath(sdir)
    meta_p = os.path.join(sdir, "meta.json")
    meta = json.load(open(meta_p))
    checks = checks or [meta["property"]]
    rc, out = sh(["git", "status", "--porcelain", "--untracked-files=no"], cwd="/repo")
    if out.strip():
        print("/repo not clean:", out)
        return 1
    rc, out = sh(["git", "apply", os.path.join(sdir, "patch.diff")], cwd="/repo")
    if rc != 0:
        print("patch does not apply to /repo", out)
        return 1
    results = meta.setdefault("our_checks", {})
    try:
        for c in checks:
            t0 = time.time()
            rc, out = sh(["./check", c, "--tier", "quick"], cwd=VERIF, timeout=7200)
            lines = [l for l in out.splitlines() if l.startswith(("VIOLATION", "  signature", "INCONCLUSIVE", "OK ", "KNOWN-FINDING"))]
            results[c] = dict(exit=rc, verdict={0: "MISSED (held)", 1: "CAUGHT", 2: "INCONCLUSIVE"}.get(rc, "?"), wall_s=round(time.time() - t0),
                              lines=[l[:300] for l in lines[:8]])
            print(c, results[c]["verdict"], results[c]["wall_s"], "s")
            for l in lines[:6]:
                print("   ", l[:260])
    finally:
        sh(["git", "checkout", "--", "."], cwd="/repo")
        # evidence files were rewritten by runs on a mutated tree: do not keep them
        sh(["git", "checkout", "--", "evidence"], cwd=VERIF)
        sh("rm -f replay/*.json", cwd=VERIF)
    with open(meta_p, "w") as f:
        json.dump(meta, f, indent=1)
    return 0


if __name__ == "__main__":
    if sys.argv[1] == "confirm":
        sys.exit(confirm(sys.argv[2], sys.argv[3]))
    elif sys.argv[1] == "check":
        sys.exit(check(sys.argv[2], sys.argv[3:]))
