//! Rust side of the C16 experiment: only constructors, consumers and counters.  Every value is
//! *operated* from C through the published declarations in ../cglue_rt.h.
#![allow(clippy::all, improper_ctypes_definitions)]
use cglue::prelude::v1::*;
use cglue::trait_group::{c_void, CGlueObjContainer};
use std::sync::Arc;
use vmon::{tracked, Tracked};

#[repr(C)]
#[derive(Clone, Copy)]
pub struct Pod {
    pub a: u8,
    pub b: u32,
}

// ---- counters -------------------------------------------------------------------------------
static mut MARK: u64 = 0;
#[no_mangle]
pub extern "C" fn rs_mark() {
    unsafe { MARK = tracked::mark() };
}
/// tracked payloads created since the mark that have not been dropped
#[no_mangle]
pub extern "C" fn rs_tracked_live() -> i64 {
    let (leaked, _) = tracked::since(unsafe { MARK });
    leaked.len() as i64
}
#[no_mangle]
pub extern "C" fn rs_tracked_double() -> u64 {
    let (_, multi) = tracked::since(unsafe { MARK });
    multi.len() as u64 + tracked::double_drops()
}
#[no_mangle]
pub extern "C" fn rs_tracked_id(t: &Tracked) -> u64 {
    t.touch()
}

// ---- boxes ----------------------------------------------------------------------------------
#[no_mangle]
pub extern "C" fn rs_box_tracked() -> CBox<'static, Tracked> {
    CBox::from(Tracked::new())
}
#[no_mangle]
pub extern "C" fn rs_box_u64(v: u64) -> CBox<'static, u64> {
    CBox::from(v)
}
#[no_mangle]
pub extern "C" fn rs_box_u8(v: u8) -> CBox<'static, u8> {
    CBox::from(v)
}
#[no_mangle]
pub extern "C" fn rs_box_pod(a: u8, b: u32) -> CBox<'static, Pod> {
    CBox::from(Pod { a, b })
}
#[no_mangle]
pub extern "C" fn rs_box_ptr(p: *const u8) -> CBox<'static, *const u8> {
    CBox::from(p)
}
/// Rust consumes a box (possibly forged in C with its own drop function)
#[no_mangle]
pub extern "C" fn rs_take_box_u64(b: CBox<'static, u64>) -> u64 {
    let v = *b;
    drop(b);
    v
}
#[no_mangle]
pub extern "C" fn rs_box_opaque(b: CBox<'static, Tracked>) -> CBox<'static, c_void> {
    b.into_opaque()
}
#[no_mangle]
pub extern "C" fn rs_slicebox_u64(n: usize) -> CSliceBox<'static, u64> {
    CSliceBox::from((0..n as u64).map(|x| x * 3 + 1).collect::<Vec<_>>().into_boxed_slice())
}

// ---- arcs -----------------------------------------------------------------------------------
#[no_mangle]
pub extern "C" fn rs_arc_tracked() -> CArc<Tracked> {
    CArc::from(Tracked::new())
}
#[no_mangle]
pub extern "C" fn rs_arc_empty() -> CArc<Tracked> {
    CArc::default()
}
#[no_mangle]
pub unsafe extern "C" fn rs_arc_strong(p: *const Tracked) -> usize {
    let a = Arc::from_raw(p);
    let n = Arc::strong_count(&a);
    std::mem::forget(a);
    n
}
#[no_mangle]
pub extern "C" fn rs_arc_clone(a: &CArc<Tracked>) -> CArc<Tracked> {
    a.clone()
}
/// an arc made by the C side (its own instance, clone and release functions): Rust clones it `k` times,
/// converts some clones to the non-empty form and back, and releases everything
#[no_mangle]
pub extern "C" fn rs_arc_foreign_roundtrip(a: CArc<c_void>, k: u32) -> u32 {
    let mut held = vec![];
    for i in 0..k {
        let c = a.clone();
        if i % 2 == 0 {
            match c.transpose() {
                Some(s) => { let s2 = s.clone(); held.push(CArc::from(Some(s))); held.push(CArc::from(Some(s2))); }
                None => return u32::MAX,
            }
        } else {
            held.push(c);
        }
    }
    let n = held.len() as u32;
    drop(held);
    drop(a);
    n
}
#[no_mangle]
pub extern "C" fn rs_take_arc(a: CArc<Tracked>) -> u64 {
    let id = a.as_ref().map(|t| t.touch()).unwrap_or(u64::MAX);
    drop(a);
    id
}
#[no_mangle]
pub extern "C" fn rs_arcsome_u64(v: u64) -> CArcSome<u64> {
    CArcSome::from(v)
}

// ---- slices ---------------------------------------------------------------------------------
#[no_mangle]
pub extern "C" fn rs_slice_sum_u8(s: CSliceRef<u8>) -> u64 {
    s.iter().map(|x| *x as u64).sum::<u64>() * 1000 + s.len() as u64
}
/// a C-built {data, len} pair holding text (ASCII incl. NUL bytes): read as `&str`, the way a `&str` argument of a trait method is decoded
#[no_mangle]
pub extern "C" fn rs_str_digest(s: CSliceRef<u8>) -> u64 {
    let t: &str = unsafe { s.into_str() };
    t.bytes().fold(t.len() as u64, |a, x| a.wrapping_mul(131).wrapping_add(x as u64 + 1))
}
#[no_mangle]
pub extern "C" fn rs_slice_sum_u64(s: CSliceRef<u64>) -> u64 {
    s.iter().fold(s.len() as u64, |a, x| a.wrapping_mul(31).wrapping_add(*x))
}
#[no_mangle]
pub extern "C" fn rs_slice_sum_pod(s: CSliceRef<Pod>) -> u64 {
    s.iter().fold(s.len() as u64, |a, x| a.wrapping_mul(31).wrapping_add(x.a as u64 * 7 + x.b as u64))
}
#[no_mangle]
pub extern "C" fn rs_slice_fill(mut s: CSliceMut<u64>, seed: u64) {
    for (i, x) in s.iter_mut().enumerate() {
        *x = seed.wrapping_mul(i as u64 + 1);
    }
}
#[no_mangle]
pub extern "C" fn rs_static_str() -> CSliceRef<'static, u8> {
    CSliceRef::from("h\u{e9}llo")
}
static PODS: [Pod; 3] = [Pod { a: 1, b: 10 }, Pod { a: 2, b: 20 }, Pod { a: 3, b: 30 }];
#[no_mangle]
pub extern "C" fn rs_static_pods() -> CSliceRef<'static, Pod> {
    CSliceRef::from(&PODS[..])
}

// ---- vectors --------------------------------------------------------------------------------
#[no_mangle]
pub extern "C" fn rs_vec_u64(n: usize, spare: usize) -> CVec<u64> {
    let mut v: Vec<u64> = Vec::with_capacity(n + spare);
    v.extend((0..n as u64).map(|x| x * x));
    CVec::from(v)
}
#[no_mangle]
pub extern "C" fn rs_vec_u8(n: usize) -> CVec<u8> {
    CVec::from((0..n).map(|x| x as u8).collect::<Vec<_>>())
}
#[no_mangle]
pub extern "C" fn rs_vec_pod(n: usize) -> CVec<Pod> {
    CVec::from((0..n).map(|x| Pod { a: x as u8, b: x as u32 * 100 }).collect::<Vec<_>>())
}
#[no_mangle]
pub extern "C" fn rs_vec_tracked(n: usize) -> CVec<Tracked> {
    CVec::from((0..n).map(|_| Tracked::new()).collect::<Vec<_>>())
}
/// Rust consumes a vector that C may have grown / written
#[no_mangle]
pub extern "C" fn rs_vec_digest(v: CVec<u64>) -> u64 {
    let d = v.iter().fold(v.len() as u64, |a, x| a.wrapping_mul(31).wrapping_add(*x));
    if v.capacity() < v.len() {
        return u64::MAX;
    }
    drop(v);
    d
}
#[no_mangle]
pub extern "C" fn rs_vec_push(v: &mut CVec<u64>, x: u64) {
    v.push(x)
}

// ---- callbacks ------------------------------------------------------------------------------
/// feed 0..n into a callback forged by C; returns the number of items offered
#[no_mangle]
pub extern "C" fn rs_feed(cb: OpaqueCallback<u64>, n: u64) -> usize {
    (0..n).map(|x| x * 2 + 1).feed_into(cb)
}
#[no_mangle]
pub extern "C" fn rs_feed_pod(cb: OpaqueCallback<Pod>, n: u32) -> usize {
    (0..n).map(|x| Pod { a: x as u8, b: x * 3 }).feed_into(cb)
}
#[no_mangle]
pub extern "C" fn rs_sink_new() -> *mut Vec<u64> {
    Box::into_raw(Box::new(Vec::new()))
}
/// a Rust-made callback (collects into the Vec) that C will invoke through {context, func}
#[no_mangle]
pub unsafe extern "C" fn rs_sink_callback(v: *mut Vec<u64>) -> OpaqueCallback<'static, u64> {
    (&mut *v).into()
}
#[no_mangle]
pub unsafe extern "C" fn rs_sink_digest_free(v: *mut Vec<u64>) -> u64 {
    let v = Box::from_raw(v);
    v.iter().fold(v.len() as u64, |a, x| a.wrapping_mul(31).wrapping_add(*x))
}

// ---- iterators ------------------------------------------------------------------------------
pub struct Counter {
    next: u64,
    end: u64,
    calls_after_end: u64,
}
impl Iterator for Counter {
    type Item = u64;
    fn next(&mut self) -> Option<u64> {
        if self.next < self.end {
            self.next += 1;
            Some(self.next * 10)
        } else {
            self.calls_after_end += 1;
            None
        }
    }
}
#[no_mangle]
pub extern "C" fn rs_iter_new(n: u64) -> *mut Counter {
    Box::into_raw(Box::new(Counter { next: 0, end: n, calls_after_end: 0 }))
}
#[no_mangle]
pub unsafe extern "C" fn rs_iter_wrap(c: *mut Counter) -> CIterator<'static, u64> {
    CIterator::new(&mut *c)
}
#[no_mangle]
pub unsafe extern "C" fn rs_iter_state_free(c: *mut Counter) -> u64 {
    let c = Box::from_raw(c);
    c.next * 1000 + c.calls_after_end
}
/// Rust consumes an iterator forged by C
#[no_mangle]
pub extern "C" fn rs_iter_digest(it: CIterator<u64>) -> u64 {
    it.fold(0u64, |a, x| a.wrapping_mul(31).wrapping_add(x + 1))
}

/// an iterator over values that own something (boxes): the `out` slot of the C caller is output-only,
/// whatever bits it holds when `next` is called are not a value and must not be released
pub struct BoxIter {
    left: u64,
}
impl Iterator for BoxIter {
    type Item = CBox<'static, Tracked>;
    fn next(&mut self) -> Option<Self::Item> {
        if self.left > 0 {
            self.left -= 1;
            Some(CBox::from(Tracked::new()))
        } else {
            None
        }
    }
}
#[no_mangle]
pub extern "C" fn rs_boxiter_new(n: u64) -> *mut BoxIter {
    Box::into_raw(Box::new(BoxIter { left: n }))
}
#[no_mangle]
pub unsafe extern "C" fn rs_boxiter_wrap(c: *mut BoxIter) -> CIterator<'static, CBox<'static, Tracked>> {
    CIterator::new(&mut *c)
}
#[no_mangle]
pub unsafe extern "C" fn rs_boxiter_free(c: *mut BoxIter) -> u64 {
    Box::from_raw(c).left
}

// ---- option / result ------------------------------------------------------------------------
#[no_mangle]
pub extern "C" fn rs_opt_u64(some: bool, v: u64) -> COption<u64> {
    if some { Some(v) } else { None }.into()
}
#[no_mangle]
pub extern "C" fn rs_opt_u8(some: bool, v: u8) -> COption<u8> {
    if some { Some(v) } else { None }.into()
}
#[no_mangle]
pub extern "C" fn rs_opt_pod(some: bool, a: u8, b: u32) -> COption<Pod> {
    if some { Some(Pod { a, b }) } else { None }.into()
}
/// returns -1 for None, value otherwise
#[no_mangle]
pub extern "C" fn rs_opt_read(o: COption<u64>) -> i64 {
    Option::from(o).map(|v: u64| v as i64).unwrap_or(-1)
}
#[no_mangle]
pub extern "C" fn rs_res(ok: bool, v: u64, e: i32) -> CResult<u64, i32> {
    if ok { Ok(v) } else { Err(e) }.into()
}
#[no_mangle]
pub extern "C" fn rs_res_pod(ok: bool, a: u8, b: u32) -> CResult<Pod, u8> {
    if ok { Ok(Pod { a, b }) } else { Err(a) }.into()
}
/// returns value for Ok, -err for Err
#[no_mangle]
pub extern "C" fn rs_res_read(r: CResult<u64, i32>) -> i64 {
    match Result::from(r) {
        Ok(v) => v as i64,
        Err(e) => -(e as i64),
    }
}

// ---- object container -----------------------------------------------------------------------
pub type Cont = CGlueObjContainer<CBox<'static, c_void>, CArc<c_void>, ::core::marker::PhantomData<u8>>;
#[no_mangle]
pub extern "C" fn rs_container() -> Cont {
    use cglue::trait_group::Opaquable;
    let c: CGlueObjContainer<CBox<'static, Tracked>, CArc<c_void>, ::core::marker::PhantomData<u8>> = (CBox::from(Tracked::new()), CArc::from(Tracked::new()).into_opaque()).into();
    c.into_opaque()
}
#[no_mangle]
pub extern "C" fn rs_layout(which: u32) -> usize {
    use std::mem::{align_of, size_of};
    match which {
        0 => size_of::<CBox<u64>>(),
        1 => size_of::<CArc<u64>>(),
        2 => size_of::<CSliceRef<u64>>(),
        3 => size_of::<CVec<u64>>(),
        4 => size_of::<OpaqueCallback<u64>>(),
        5 => size_of::<CIterator<u64>>(),
        6 => size_of::<COption<u64>>(),
        7 => size_of::<CResult<u64, i32>>(),
        8 => size_of::<COption<u8>>(),
        9 => size_of::<COption<Pod>>(),
        10 => size_of::<Cont>(),
        11 => align_of::<COption<u8>>(),
        12 => size_of::<CResult<Pod, u8>>(),
        13 => size_of::<CSliceBox<u64>>(),
        _ => 0,
    }
}
