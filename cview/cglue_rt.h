/* The C declarations published for cglue's runtime types, written from the property statement
 * (C16) and cross-checked against examples/pregen-headers/bindings.h: a box is {instance,
 * drop_fn}, an arc {instance, clone_fn, drop_fn}, slices {data, len}, a vector {data, len,
 * capacity, drop_fn, reserve_fn}, callbacks {context, func}, iterators {iter, func returning 0
 * for an item}, option tags None=0/Some=1, result tags Ok=0/Err=1.  The driver includes ONLY
 * this file: it knows nothing else about the Rust side. */
#ifndef CGLUE_RT_H
#define CGLUE_RT_H
#include <stdbool.h>
#include <stddef.h>
#include <stdint.h>

typedef struct Pod { uint8_t a; uint32_t b; } Pod;

#define CBOX(T, N) typedef struct CBox_##N { T *instance; void (*drop_fn)(T *); } CBox_##N
CBOX(void, void); CBOX(uint64_t, u64); CBOX(uint8_t, u8); CBOX(Pod, pod); CBOX(const uint8_t *, ptr);

typedef struct CArc_void { const void *instance; const void *(*clone_fn)(const void *); void (*drop_fn)(const void *); } CArc_void;
typedef struct CArcSome_u64 { const uint64_t *instance; const uint64_t *(*clone_fn)(const uint64_t *); void (*drop_fn)(const uint64_t *); } CArcSome_u64;

#define CSLICE(T, N) typedef struct CSliceRef_##N { const T *data; uintptr_t len; } CSliceRef_##N; typedef struct CSliceMut_##N { T *data; uintptr_t len; } CSliceMut_##N
CSLICE(uint8_t, u8); CSLICE(uint64_t, u64); CSLICE(Pod, pod);
typedef struct CSliceBox_u64 { CSliceMut_u64 instance; void (*drop_fn)(CSliceMut_u64 *); } CSliceBox_u64;

#define CVEC(T, N) typedef struct CVec_##N { T *data; uintptr_t len; uintptr_t capacity; void (*drop_fn)(T *, uintptr_t, uintptr_t); uintptr_t (*reserve_fn)(struct CVec_##N *, uintptr_t); } CVec_##N
CVEC(uint64_t, u64); CVEC(uint8_t, u8); CVEC(Pod, pod); CVEC(void, tracked);

#define CALLBACK(T, N) typedef struct OpaqueCallback_##N { void *context; bool (*func)(void *, T); } OpaqueCallback_##N
CALLBACK(uint64_t, u64); CALLBACK(Pod, pod);

#define CITER(T, N) typedef struct CIterator_##N { void *iter; int32_t (*func)(void *, T *out); } CIterator_##N
CITER(uint64_t, u64);

enum { COption_None = 0, COption_Some = 1 };
enum { CResult_Ok = 0, CResult_Err = 1 };
typedef struct COption_u64 { uint32_t tag; uint64_t some; } COption_u64;
typedef struct COption_u8 { uint32_t tag; uint8_t some; } COption_u8;
typedef struct COption_pod { uint32_t tag; Pod some; } COption_pod;
typedef struct CResult_u64_i32 { uint32_t tag; union { uint64_t ok; int32_t err; }; } CResult_u64_i32;
typedef struct CResult_pod_u8 { uint32_t tag; union { Pod ok; uint8_t err; }; } CResult_pod_u8;

typedef struct Container { CBox_void instance; CArc_void context; } Container;

/* constructors / consumers / counters exported by the Rust side */
void rs_mark(void); int64_t rs_tracked_live(void); uint64_t rs_tracked_double(void); uint64_t rs_tracked_id(const void *);
CBox_void rs_box_tracked(void); CBox_u64 rs_box_u64(uint64_t); CBox_u8 rs_box_u8(uint8_t); CBox_pod rs_box_pod(uint8_t, uint32_t); CBox_ptr rs_box_ptr(const uint8_t *);
uint64_t rs_take_box_u64(CBox_u64); CBox_void rs_box_opaque(CBox_void); CSliceBox_u64 rs_slicebox_u64(uintptr_t);
CArc_void rs_arc_tracked(void); CArc_void rs_arc_empty(void); uintptr_t rs_arc_strong(const void *); CArc_void rs_arc_clone(const CArc_void *); uint64_t rs_take_arc(CArc_void); uint32_t rs_arc_foreign_roundtrip(CArc_void, uint32_t); CArcSome_u64 rs_arcsome_u64(uint64_t);
uint64_t rs_slice_sum_u8(CSliceRef_u8); uint64_t rs_str_digest(CSliceRef_u8); uint64_t rs_slice_sum_u64(CSliceRef_u64); uint64_t rs_slice_sum_pod(CSliceRef_pod); void rs_slice_fill(CSliceMut_u64, uint64_t);
CSliceRef_u8 rs_static_str(void); CSliceRef_pod rs_static_pods(void);
CVec_u64 rs_vec_u64(uintptr_t, uintptr_t); CVec_u8 rs_vec_u8(uintptr_t); CVec_pod rs_vec_pod(uintptr_t); CVec_tracked rs_vec_tracked(uintptr_t); uint64_t rs_vec_digest(CVec_u64); void rs_vec_push(CVec_u64 *, uint64_t);
uintptr_t rs_feed(OpaqueCallback_u64, uint64_t); uintptr_t rs_feed_pod(OpaqueCallback_pod, uint32_t);
void *rs_sink_new(void); OpaqueCallback_u64 rs_sink_callback(void *); uint64_t rs_sink_digest_free(void *);
CITER(CBox_void, box); void *rs_boxiter_new(uint64_t); CIterator_box rs_boxiter_wrap(void *); uint64_t rs_boxiter_free(void *);
void *rs_iter_new(uint64_t); CIterator_u64 rs_iter_wrap(void *); uint64_t rs_iter_state_free(void *); uint64_t rs_iter_digest(CIterator_u64);
COption_u64 rs_opt_u64(bool, uint64_t); COption_u8 rs_opt_u8(bool, uint8_t); COption_pod rs_opt_pod(bool, uint8_t, uint32_t); int64_t rs_opt_read(COption_u64);
CResult_u64_i32 rs_res(bool, uint64_t, int32_t); CResult_pod_u8 rs_res_pod(bool, uint8_t, uint32_t); int64_t rs_res_read(CResult_u64_i32);
Container rs_container(void); uintptr_t rs_layout(uint32_t);
#endif
