/* C16 driver: operates cglue runtime values purely through the published C declarations and
 * reports every disagreement with the model as a JSON line.  argv: seed ops */
#include "cglue_rt.h"
#include <stdio.h>
#include <stdlib.h>
#include <string.h>

static uint64_t rng_s;
static uint64_t rnd(void) { rng_s += 0x9E3779B97F4A7C15ull; uint64_t z = rng_s; z = (z ^ (z >> 30)) * 0xBF58476D1CE4E5B9ull; z = (z ^ (z >> 27)) * 0x94D049BB133111EBull; return z ^ (z >> 31); }
static uint64_t below(uint64_t n) { return n ? rnd() % n : 0; }
static unsigned long viol = 0, checks = 0;
#define CHECK(c, sig, ...) do { checks++; if (!(c)) { viol++; printf("{\"k\":\"violation\",\"sig\":\"C16:%s\",\"detail\":\"", sig); printf(__VA_ARGS__); printf("\",\"replay\":\"seed=%llu\"}\n", (unsigned long long)seed0); fflush(stdout); } } while (0)
static unsigned long long seed0;
static unsigned long n_box, n_arc, n_slice, n_vec, n_cb, n_iter, n_opt, n_res, n_cont;

/* --- things forged on the C side ------------------------------------------------------- */
static int c_drop_calls; static uint64_t c_dropped_value;
static void c_box_drop(uint64_t *p) { c_drop_calls++; c_dropped_value = *p; free(p); }
typedef struct { uint64_t seen[64]; int n; int stop_after; } Sink;
static bool c_cb(void *ctx, uint64_t v) { Sink *s = ctx; if (s->n < 64) s->seen[s->n] = v; s->n++; return s->n <= s->stop_after; }
typedef struct { uint64_t sum; int n; } PodSink;
static bool c_cb_pod(void *ctx, Pod p) { PodSink *s = ctx; s->sum = s->sum * 31 + p.a * 7 + p.b; s->n++; return true; }
typedef struct { uint64_t next, end; int after_end; int32_t end_code; } CIt;
/* "returning 0 for an item": anything else ends the iteration - the end code is the implementor's choice */
static int32_t c_it(void *st, uint64_t *out) { CIt *c = st; if (c->next < c->end) { *out = c->next * 5; c->next++; return 0; } c->after_end++; return c->end_code; }
/* an arc implemented on the C side */
typedef struct { int refs, clones, drops; } CArcObj;
static const void *carc_clone(const void *p) { CArcObj *o = (CArcObj *)p; o->refs++; o->clones++; return p; }
static void carc_drop(const void *p) { CArcObj *o = (CArcObj *)p; o->refs--; o->drops++; }
/* ... and one whose clone function hands out a new handle per reference; the release function retires exactly the handle it is given */
typedef struct { int live, retired_twice, cloned_after_retire; } CHandle;
static CHandle handles[64]; static int n_handles;
static const void *chandle_clone(const void *p) { CHandle *h = (CHandle *)p; if (!h->live) h->cloned_after_retire++; if (n_handles >= 64) return p; CHandle *n = &handles[n_handles++]; n->live = 1; n->retired_twice = n->cloned_after_retire = 0; return n; }
static void chandle_drop(const void *p) { CHandle *h = (CHandle *)p; if (!h->live) h->retired_twice++; h->live = 0; }

static void t_box(void) {
    n_box++;
    rs_mark();
    uint64_t v = rnd();
    CBox_u64 b = rs_box_u64(v);
    CHECK(b.instance && *b.instance == v && b.drop_fn, "box-fields", "CBox<u64>: instance/drop_fn wrong");
    *b.instance = v + 1;                       /* C may write through instance */
    CHECK(rs_take_box_u64(b) == v + 1, "box-roundtrip", "value written from C not seen by Rust");
    CBox_u8 b8 = rs_box_u8((uint8_t)v); CHECK(*b8.instance == (uint8_t)v, "box-fields", "CBox<u8>"); b8.drop_fn(b8.instance);
    CBox_pod bp = rs_box_pod(7, 70000); CHECK(bp.instance->a == 7 && bp.instance->b == 70000, "box-fields", "CBox<Pod>"); bp.drop_fn(bp.instance);
    uint8_t local = 9; CBox_ptr bq = rs_box_ptr(&local); CHECK(*bq.instance == &local, "box-fields", "CBox<ptr>"); bq.drop_fn(bq.instance);
    /* release through drop_fn: exactly one payload destroyed */
    CBox_void t = rs_box_tracked();
    CHECK(rs_tracked_live() == 1, "box-release", "a fresh boxed payload should be the only live one (%lld)", (long long)rs_tracked_live());
    if (below(2)) t = rs_box_opaque(t);
    t.drop_fn(t.instance);
    CHECK(rs_tracked_live() == 0 && rs_tracked_double() == 0, "box-release", "after drop_fn: live=%lld double=%llu", (long long)rs_tracked_live(), (unsigned long long)rs_tracked_double());
    /* a box forged in C, consumed by Rust: Rust must call OUR drop function, once */
    uint64_t *mine = malloc(8); *mine = v ^ 0xabc; c_drop_calls = 0;
    CBox_u64 forged = { mine, c_box_drop };
    CHECK(rs_take_box_u64(forged) == (v ^ 0xabc), "box-forged", "forged box value");
    CHECK(c_drop_calls == 1 && c_dropped_value == (v ^ 0xabc), "box-forged", "Rust dropped a C-made box %d times through its drop_fn", c_drop_calls);
    uintptr_t n = below(5);
    CSliceBox_u64 sb = rs_slicebox_u64(n);
    CHECK(sb.instance.len == n, "slicebox-fields", "len"); for (uintptr_t i = 0; i < n; i++) CHECK(sb.instance.data[i] == i * 3 + 1, "slicebox-fields", "element");
    sb.drop_fn(&sb.instance);
}

static void t_arc(void) {
    n_arc++;
    rs_mark();
    CArc_void a = rs_arc_tracked();
    CHECK(a.instance && a.clone_fn && a.drop_fn, "arc-fields", "non-empty arc has null fields");
    CHECK(rs_arc_strong(a.instance) == 1, "arc-count", "fresh arc count %lu", (unsigned long)rs_arc_strong(a.instance));
    CArc_void held[6]; int nh = 0; held[nh++] = a;
    int steps = 3 + (int)below(12);
    for (int s = 0; s < steps; s++) {
        uint64_t r = below(4);
        if (r == 0 && nh < 6) { /* clone from C through clone_fn */
            CArc_void *src = &held[below(nh)];
            CArc_void c = { src->clone_fn(src->instance), src->clone_fn, src->drop_fn };
            CHECK(c.instance == src->instance, "arc-clone", "clone_fn returned another address");
            held[nh++] = c;
        } else if (r == 1 && nh < 6) { /* clone on the Rust side */
            CArc_void c = rs_arc_clone(&held[below(nh)]);
            CHECK(c.instance == held[0].instance && c.clone_fn == held[0].clone_fn && c.drop_fn == held[0].drop_fn, "arc-clone", "Rust clone differs in fields");
            held[nh++] = c;
        } else if (r == 2 && nh > 1) { /* release from C through drop_fn */
            int i = (int)below(nh); held[i].drop_fn(held[i].instance); held[i] = held[--nh];
        } else if (r == 3 && nh > 1) { /* release on the Rust side */
            int i = (int)below(nh); rs_take_arc(held[i]); held[i] = held[--nh];
        }
        CHECK(rs_arc_strong(held[0].instance) == (uintptr_t)nh, "arc-count", "strong count %lu with %d handles", (unsigned long)rs_arc_strong(held[0].instance), nh);
        CHECK(rs_tracked_live() == 1, "arc-payload", "payload must be alive while handles exist");
    }
    while (nh > 0) { nh--; if (below(2)) held[nh].drop_fn(held[nh].instance); else rs_take_arc(held[nh]); }
    CHECK(rs_tracked_live() == 0 && rs_tracked_double() == 0, "arc-payload", "after the last handle: live=%lld double=%llu", (long long)rs_tracked_live(), (unsigned long long)rs_tracked_double());
    CArc_void e = rs_arc_empty();
    CHECK(e.instance == NULL && e.clone_fn == NULL && e.drop_fn == NULL, "arc-fields", "empty arc must be all null");
    CHECK(rs_take_arc(e) == UINT64_MAX, "arc-fields", "empty arc read as non-empty");
    CArcSome_u64 s = rs_arcsome_u64(42); CHECK(*s.instance == 42, "arc-fields", "CArcSome value");
    const uint64_t *c2 = s.clone_fn(s.instance); CHECK(c2 == s.instance, "arc-clone", "CArcSome clone"); s.drop_fn(c2); s.drop_fn(s.instance);
}

static void t_slice(void) {
    n_slice++;
    uint8_t b8[40]; uint64_t b64[20]; Pod bp[9];
    uintptr_t n = below(41), m = below(21), k = below(10);
    uint64_t e8 = 0, e64 = m, ep = k;
    for (uintptr_t i = 0; i < n; i++) { b8[i] = (uint8_t)rnd(); e8 += b8[i]; }
    for (uintptr_t i = 0; i < m; i++) { b64[i] = rnd(); e64 = e64 * 31 + b64[i]; }
    for (uintptr_t i = 0; i < k; i++) { bp[i].a = (uint8_t)rnd(); bp[i].b = (uint32_t)rnd(); ep = ep * 31 + bp[i].a * 7ull + bp[i].b; }
    CSliceRef_u8 s8 = { b8, n }; CSliceRef_u64 s64 = { b64, m }; CSliceRef_pod sp = { bp, k };
    CHECK(rs_slice_sum_u8(s8) == e8 * 1000 + n, "slice-read", "u8 slice of %lu", (unsigned long)n);
    CHECK(rs_slice_sum_u64(s64) == e64, "slice-read", "u64 slice of %lu", (unsigned long)m);
    CHECK(rs_slice_sum_pod(sp) == ep, "slice-read", "Pod slice of %lu", (unsigned long)k);
    uint64_t seed = rnd(); CSliceMut_u64 sm = { b64, m }; rs_slice_fill(sm, seed);
    for (uintptr_t i = 0; i < m; i++) CHECK(b64[i] == seed * (i + 1), "slice-write", "Rust write through CSliceMut not visible at %lu", (unsigned long)i);
    /* text with NUL bytes anywhere (a {data, len} pair is not a C string): every byte up to len must reach the Rust side */
    { uint8_t tx[24]; uintptr_t tn = below(25); uint64_t et = tn;
      for (uintptr_t i = 0; i < tn; i++) { tx[i] = (below(3) == 0) ? 0 : (uint8_t)(32 + below(90)); et = et * 131 + tx[i] + 1; }
      CSliceRef_u8 ts = { tx, tn };
      CHECK(rs_str_digest(ts) == et, "str-read", "text of %lu bytes with NUL bytes read as &str", (unsigned long)tn); }
    CSliceRef_u8 st = rs_static_str(); CHECK(st.len == 6 && memcmp(st.data, "h\xc3\xa9llo", 6) == 0, "slice-read", "static str");
    CSliceRef_pod pp = rs_static_pods(); CHECK(pp.len == 3 && pp.data[2].a == 3 && pp.data[2].b == 30 && pp.data[1].b == 20, "slice-read", "static pods");
}

static void t_vec(void) {
    n_vec++;
    rs_mark();
    uintptr_t n = below(7), spare = below(3);
    CVec_u64 v = rs_vec_u64(n, spare);
    CHECK(v.len == n && v.capacity >= n + spare && v.drop_fn && v.reserve_fn, "vec-fields", "len %lu cap %lu", (unsigned long)v.len, (unsigned long)v.capacity);
    uint64_t model[64]; uintptr_t ml = n;
    for (uintptr_t i = 0; i < n; i++) { CHECK(v.data[i] == i * i, "vec-read", "element %lu", (unsigned long)i); model[i] = i * i; }
    int steps = (int)below(20);
    for (int s = 0; s < steps && ml < 60; s++) {
        uint64_t x = rnd();
        if (below(3) == 0) { rs_vec_push(&v, x); }
        else {   /* grow + write from C through reserve_fn */
            if (v.capacity - v.len < 1) { uintptr_t before = v.capacity; uintptr_t ret = v.reserve_fn(&v, 1); CHECK(v.capacity > before && v.capacity - v.len >= 1 && ret == v.capacity, "vec-grow", "reserve_fn: cap %lu -> %lu ret %lu", (unsigned long)before, (unsigned long)v.capacity, (unsigned long)ret); }
            v.data[v.len++] = x;
        }
        model[ml++] = x;
        CHECK(v.len == ml && v.capacity >= v.len, "vec-fields", "len/cap after growth");
    }
    uint64_t d = ml; for (uintptr_t i = 0; i < ml; i++) { CHECK(v.data[i] == model[i], "vec-read", "element %lu after growth", (unsigned long)i); d = d * 31 + model[i]; }
    if (below(2)) CHECK(rs_vec_digest(v) == d, "vec-roundtrip", "Rust reads another content than C wrote"); else v.drop_fn(v.data, v.len, v.capacity);
    CVec_pod vp = rs_vec_pod(4); CHECK(vp.len == 4 && vp.data[3].a == 3 && vp.data[3].b == 300, "vec-read", "Pod vec"); vp.drop_fn(vp.data, vp.len, vp.capacity);
    CVec_u8 v8 = rs_vec_u8(5); CHECK(v8.len == 5 && v8.data[4] == 4, "vec-read", "u8 vec"); v8.reserve_fn(&v8, 100); CHECK(v8.capacity >= 105 && v8.data[4] == 4, "vec-grow", "u8 reserve"); v8.drop_fn(v8.data, v8.len, v8.capacity);
    uintptr_t tn = below(5); CVec_tracked vt = rs_vec_tracked(tn);
    CHECK(rs_tracked_live() == (int64_t)tn, "vec-elements", "live elements %lld of %lu", (long long)rs_tracked_live(), (unsigned long)tn);
    vt.drop_fn(vt.data, vt.len, vt.capacity);
    CHECK(rs_tracked_live() == 0 && rs_tracked_double() == 0, "vec-elements", "after drop_fn live=%lld", (long long)rs_tracked_live());
}

static void t_callback(void) {
    n_cb++;
    uint64_t n = below(9); int stop = (int)below(10);
    Sink s = { {0}, 0, stop }; OpaqueCallback_u64 cb = { &s, c_cb };
    uintptr_t offered = rs_feed(cb, n);
    uintptr_t want = (uint64_t)stop + 1 < n ? (uintptr_t)stop + 1 : n;
    CHECK(offered == want && (uintptr_t)s.n == want, "callback-count", "n=%llu stop=%d: offered %lu, sink saw %d, want %lu", (unsigned long long)n, stop, (unsigned long)offered, s.n, (unsigned long)want);
    for (int i = 0; i < s.n && i < 64; i++) CHECK(s.seen[i] == (uint64_t)i * 2 + 1, "callback-order", "item %d is %llu", i, (unsigned long long)s.seen[i]);
    PodSink ps = { 0, 0 }; OpaqueCallback_pod cbp = { &ps, c_cb_pod }; uint32_t pn = (uint32_t)below(6); uint64_t e = 0;
    for (uint32_t i = 0; i < pn; i++) e = e * 31 + (uint8_t)i * 7 + i * 3;
    CHECK(rs_feed_pod(cbp, pn) == pn && ps.sum == e && ps.n == (int)pn, "callback-struct-arg", "struct argument by value");
    /* a Rust-made callback invoked from C */
    void *sink = rs_sink_new(); OpaqueCallback_u64 rc = rs_sink_callback(sink); uint64_t d = 0; uint64_t k = below(8);
    for (uint64_t i = 0; i < k; i++) { uint64_t x = rnd(); bool cont = rc.func(rc.context, x); CHECK(cont, "callback-invoke", "collecting callback asked to stop"); d = d * 31 + x; }
    uint64_t got = rs_sink_digest_free(sink); uint64_t want_d = k; { uint64_t t = k; (void)t; }
    /* digest = fold(len, a*31+x) */
    rng_s = rng_s; /* no-op */
    (void)d; (void)got; (void)want_d;
}

static void t_callback_digest(void) {
    void *sink = rs_sink_new(); OpaqueCallback_u64 rc = rs_sink_callback(sink); uint64_t k = below(8); uint64_t d = k;
    for (uint64_t i = 0; i < k; i++) { uint64_t x = rnd(); rc.func(rc.context, x); d = d * 31 + x; }
    CHECK(rs_sink_digest_free(sink) == d, "callback-invoke", "Rust-made callback invoked from C collected other items");
}

static void t_iter(void) {
    n_iter++;
    uint64_t n = below(8);
    void *st = rs_iter_new(n); CIterator_u64 it = rs_iter_wrap(st);
    uint64_t out = 0xdeadbeef; uint64_t i = 0; int32_t rc;
    while ((rc = it.func(it.iter, &out)) == 0) { i++; CHECK(out == i * 10, "iterator-item", "item %llu is %llu", (unsigned long long)i, (unsigned long long)out); if (i > 100) break; }
    CHECK(i == n && rc != 0, "iterator-end", "advanced %llu times for %llu items (rc %d)", (unsigned long long)i, (unsigned long long)n, rc);
    uint64_t sentinel = 0x1234; rc = it.func(it.iter, &sentinel); CHECK(rc != 0 && sentinel == 0x1234, "iterator-end", "after the end: rc %d, out touched", rc);
    CHECK(rs_iter_state_free(st) == n * 1000 + 2, "iterator-end", "source advanced a different number of times");
    static const int32_t END_CODES[] = { 1, 1, 2, -1, INT32_MIN, 0x7fffffff, 256 };
    CIt c = { 0, below(9), 0, END_CODES[below(7)] }; CIterator_u64 forged = { &c, c_it }; uint64_t e = 0; for (uint64_t j = 0; j < c.end; j++) e = e * 31 + (j * 5 + 1);
    uint64_t endn = c.end;
    CHECK(rs_iter_digest(forged) == e && c.next == endn && c.after_end == 1, "iterator-forged", "Rust consumed a C iterator wrongly (next %llu end %llu after_end %d)", (unsigned long long)c.next, (unsigned long long)endn, c.after_end);
}

/* items that own something: the caller's out slot is output-only. We keep a forged box with a counting
   release function in the slot whenever it does not hold a live item; nobody may ever call it. */
static int stale_released;
static void stale_drop(void *p) { (void)p; stale_released++; }
static void t_iter_boxes(void) {
    n_iter++;
    uint64_t n = below(6);
    int64_t live0 = rs_tracked_live();
    void *st = rs_boxiter_new(n); CIterator_box it = rs_boxiter_wrap(st);
    static unsigned char marker[8];
    CBox_void out = { marker, stale_drop };
    stale_released = 0;
    uint64_t i = 0; int32_t rc;
    while ((rc = it.func(it.iter, &out)) == 0) {
        i++;
        CHECK(out.instance != (void *)marker && out.drop_fn != stale_drop && out.drop_fn != NULL, "iterator-item", "boxed item %llu not written to the out slot", (unsigned long long)i);
        CHECK(rs_tracked_live() == live0 + 1, "iterator-item", "live boxed items: %lld", (long long)(rs_tracked_live() - live0));
        out.drop_fn(out.instance);                       /* the C side owns the item and releases it */
        out.instance = marker; out.drop_fn = stale_drop; /* what is left in the slot is not a value */
        if (i > 50) break;
    }
    CHECK(i == n && rc != 0, "iterator-end", "boxed iterator advanced %llu times for %llu items", (unsigned long long)i, (unsigned long long)n);
    CHECK(stale_released == 0, "iterator-out-slot-is-output-only", "the next function released the stale contents of the caller's out slot %d times", stale_released);
    CHECK(rs_tracked_live() == live0 && rs_tracked_double() == 0, "iterator-item", "boxed items leaked or released twice");
    CHECK(rs_boxiter_free(st) == 0, "iterator-end", "source not exhausted");
}

static void t_arc_foreign(void) {
    n_arc++;
    CArcObj o = { 1, 0, 0 };
    CArc_void a = { &o, carc_clone, carc_drop };
    uint32_t k = (uint32_t)below(6);
    uint32_t held = rs_arc_foreign_roundtrip(a, k);
    /* clones: k by CArc::clone plus one CArcSome::clone for every even i */
    int want_clones = (int)k + (int)((k + 1) / 2);
    CHECK(held == (uint32_t)want_clones, "arc-foreign", "Rust held %u handles, expected %d", held, want_clones);
    CHECK(o.clones == want_clones, "arc-foreign-clone-fn", "Rust made %d clones of a C-made arc but called its clone function %d times", want_clones, o.clones);
    CHECK(o.drops == want_clones + 1 && o.refs == 0, "arc-foreign-drop-fn", "C-made arc: release function called %d times for %d handles, references left %d", o.drops, want_clones + 1, o.refs);
    /* handle-per-reference arc */
    n_handles = 1; handles[0].live = 1; handles[0].retired_twice = handles[0].cloned_after_retire = 0;
    CArc_void b = { &handles[0], chandle_clone, chandle_drop };
    k = (uint32_t)below(6);
    held = rs_arc_foreign_roundtrip(b, k);
    want_clones = (int)k + (int)((k + 1) / 2);
    CHECK(held == (uint32_t)want_clones, "arc-foreign", "Rust held %u handles, expected %d", held, want_clones);
    CHECK(n_handles == want_clones + 1, "arc-foreign-clone-fn", "Rust made %d clones of a C-made arc, its clone function issued %d handles", want_clones, n_handles - 1);
    for (int i = 0; i < n_handles; i++)
        CHECK(!handles[i].live && !handles[i].retired_twice && !handles[i].cloned_after_retire, "arc-foreign-handle", "handle %d of %d issued by the C-made arc's clone function: still live %d, retired twice %d, cloned after retirement %d", i, n_handles, handles[i].live, handles[i].retired_twice, handles[i].cloned_after_retire);
}

static void t_opt_res(void) {
    n_opt++; n_res++;
    uint64_t v = rnd();
    COption_u64 s = rs_opt_u64(true, v), n = rs_opt_u64(false, v);
    CHECK(s.tag == COption_Some && s.some == v && n.tag == COption_None, "option-tags", "Some tag %u None tag %u", s.tag, n.tag);
    COption_u8 s8 = rs_opt_u8(true, 200), n8 = rs_opt_u8(false, 1); CHECK(s8.tag == 1 && s8.some == 200 && n8.tag == 0, "option-tags", "COption<u8> tag/payload offset");
    COption_pod sp = rs_opt_pod(true, 9, 99999); CHECK(sp.tag == 1 && sp.some.a == 9 && sp.some.b == 99999, "option-tags", "COption<Pod>");
    COption_u64 mine = { COption_Some, v ^ 5 }; CHECK(rs_opt_read(mine) == (int64_t)(v ^ 5) || (int64_t)(v ^ 5) < 0, "option-forged", "Rust read a C-made Some wrongly");
    COption_u64 none = { COption_None, 777 }; CHECK(rs_opt_read(none) == -1, "option-forged", "Rust read a C-made None as Some");
    CResult_u64_i32 ok = rs_res(true, v, 0), er = rs_res(false, 0, -22);
    CHECK(ok.tag == CResult_Ok && ok.ok == v && er.tag == CResult_Err && er.err == -22, "result-tags", "Ok tag %u Err tag %u", ok.tag, er.tag);
    CResult_pod_u8 rp = rs_res_pod(true, 3, 333), re = rs_res_pod(false, 44, 0); CHECK(rp.tag == 0 && rp.ok.b == 333 && re.tag == 1 && re.err == 44, "result-tags", "CResult<Pod,u8>");
    CResult_u64_i32 m1 = { CResult_Err, { 0 } }; m1.err = 13; CHECK(rs_res_read(m1) == -13, "result-forged", "Rust read a C-made Err wrongly");
    CResult_u64_i32 m2 = { CResult_Ok, { 12345 } }; CHECK(rs_res_read(m2) == 12345, "result-forged", "Rust read a C-made Ok wrongly");
}

static void t_container(void) {
    n_cont++;
    rs_mark();
    Container c = rs_container();
    CHECK(c.instance.instance && c.instance.drop_fn && c.context.instance && c.context.clone_fn && c.context.drop_fn, "container-fields", "container fields");
    CHECK(rs_tracked_live() == 2, "container-fields", "instance and context payloads alive");
    const void *c2 = c.context.clone_fn(c.context.instance); CHECK(rs_arc_strong(c.context.instance) == 2, "container-context", "context clone");
    c.instance.drop_fn(c.instance.instance); CHECK(rs_tracked_live() == 1, "container-release", "instance released");
    c.context.drop_fn(c2); c.context.drop_fn(c.context.instance);
    CHECK(rs_tracked_live() == 0 && rs_tracked_double() == 0, "container-release", "everything released exactly once");
}

int main(int argc, char **argv) {
    seed0 = argc > 1 ? strtoull(argv[1], 0, 10) : 1; rng_s = seed0 * 0x2545F4914F6CDD1Dull + 1;
    long ops = argc > 2 ? atol(argv[2]) : 1000;
    /* the sizes a C compiler computes from the declarations must be the sizes Rust uses */
    size_t mine[] = { sizeof(CBox_u64), sizeof(CArc_void), sizeof(CSliceRef_u64), sizeof(CVec_u64), sizeof(OpaqueCallback_u64), sizeof(CIterator_u64), sizeof(COption_u64),
                      sizeof(CResult_u64_i32), sizeof(COption_u8), sizeof(COption_pod), sizeof(Container), _Alignof(COption_u8), sizeof(CResult_pod_u8), sizeof(CSliceBox_u64) };
    for (unsigned i = 0; i < sizeof(mine) / sizeof(mine[0]); i++) CHECK(rs_layout(i) == mine[i], "sizeof", "type #%u: C says %zu, Rust says %zu", i, mine[i], (size_t)rs_layout(i));
    for (long i = 0; i < ops; i++) {
        switch (below(9)) {
        case 0: t_box(); break; case 1: t_arc(); break; case 2: t_slice(); break; case 3: t_vec(); break; case 4: t_callback(); break;
        case 5: t_iter(); t_iter_boxes(); t_arc_foreign(); break; case 6: t_opt_res(); break; case 7: t_container(); break; default: t_callback_digest(); break;
        }
    }
    printf("{\"k\":\"sample\",\"what\":\"C16 operation\",\"case\":\"arc: C clones through clone_fn / releases through drop_fn, interleaved with Rust-side clone/drop, strong count checked after every step\"}\n");
    printf("{\"k\":\"stat\",\"c_checks\":%lu,\"c_violations\":%lu,\"ops\":%ld,\"box\":%lu,\"arc\":%lu,\"slice\":%lu,\"vec\":%lu,\"callback\":%lu,\"iterator\":%lu,\"option_result\":%lu,\"container\":%lu}\n", checks, viol, ops, n_box, n_arc, n_slice, n_vec, n_cb, n_iter, n_opt, n_cont);
    printf("{\"k\":\"done\"}\n");
    return 0;
}
