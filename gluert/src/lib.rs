//! Support library for the generated glue corpus: the recording implementor `Rec`, its sink
//! (event log + per-instance state, both outside the object), digests, probes.
pub use vmon::rng::mix;
pub use vmon::{tracked, Report, Rng, Tracked};
use std::collections::BTreeMap;
use std::sync::atomic::{AtomicU64, Ordering};
use std::sync::{Arc, Mutex};

#[derive(Clone, Debug, PartialEq)]
pub struct Event {
    pub inst: u64,
    pub method: &'static str,
    pub digest: u64,
    pub addrs: Vec<usize>,
    pub pre: u64,
}

/// Everything observable about one run (object run or reference run).
#[derive(Default)]
pub struct Sink {
    pub log: Mutex<Vec<Event>>,
    pub states: Mutex<BTreeMap<u64, u64>>,
    /// (instance id, tracked id) in creation order
    pub created: Mutex<Vec<(u64, u64)>>,
    /// instance id -> (buf addr, words addr, text addr)
    pub bases: Mutex<BTreeMap<u64, [usize; 3]>>,
    pub into_calls: AtomicU64,
    /// what an implementor pulled out of an iterator argument, None included (side channel for the caller's model)
    pub seen: Mutex<Vec<Option<u64>>>,
    /// model violations noticed inside a call (by the implementor or by the caller's post-check)
    pub model: Mutex<Vec<String>>,
    /// set by the runner on the sink of the run that goes through the opaque object
    pub opaque: std::sync::atomic::AtomicBool,
}

impl Sink {
    pub fn new() -> Arc<Sink> {
        Arc::new(Sink::default())
    }
    pub fn nlog(&self) -> usize {
        self.log.lock().unwrap().len()
    }
    pub fn last(&self) -> Option<Event> {
        self.log.lock().unwrap().last().cloned()
    }
    pub fn state_of(&self, inst: u64) -> u64 {
        *self.states.lock().unwrap().get(&inst).unwrap_or(&0)
    }
}

pub const TEXT: &str = "a\u{e9}\u{20ac}\u{1f600}bcd\u{e9}\u{e9}z0\u{20ac}9";

/// The value behind every generated trait.  Non-zero-sized, owns heap state, counts its drop.
pub struct Rec {
    pub id: u64,
    pub sink: Arc<Sink>,
    pub buf: Vec<u8>,
    pub words: Vec<u64>,
    pub text: String,
    pub cuts: Vec<usize>,
    pub kids: u64,
    pub t: Tracked,
}

impl Rec {
    pub fn root(id: u64, sink: &Arc<Sink>) -> Rec {
        let mut r = Rng::new(id);
        let buf: Vec<u8> = (0..48).map(|_| r.next() as u8).collect();
        let words: Vec<u64> = (0..8).map(|_| r.next()).collect();
        let text = TEXT.to_string();
        let mut cuts: Vec<usize> = text.char_indices().map(|(i, _)| i).collect();
        cuts.push(text.len());
        let t = Tracked::new();
        sink.states.lock().unwrap().insert(id, id ^ 0x5555);
        sink.created.lock().unwrap().push((id, t.id));
        sink.bases.lock().unwrap().insert(id, [buf.as_ptr() as usize, words.as_ptr() as usize, text.as_ptr() as usize]);
        Rec { id, sink: sink.clone(), buf, words, text, cuts, kids: 0, t }
    }
    /// a new instance whose id is a function of this instance's history
    pub fn derive(&self) -> Rec {
        let st = self.state();
        let n = self.sink.created.lock().unwrap().len() as u64;
        Rec::root(mix(mix(self.id, st), n), &self.sink)
    }
    pub fn state(&self) -> u64 {
        self.sink.state_of(self.id)
    }
    /// log one call and fold it into the state; returns the *new* state
    pub fn event(&self, method: &'static str, digest: u64, addrs: Vec<usize>) -> u64 {
        self.t.touch();
        let mut st = self.sink.states.lock().unwrap();
        let pre = *st.get(&self.id).unwrap_or(&0);
        let mut h = 0u64;
        for b in method.bytes() {
            h = mix(h, b as u64);
        }
        let new = mix(pre, h ^ digest);
        st.insert(self.id, new);
        drop(st);
        self.sink.log.lock().unwrap().push(Event { inst: self.id, method, digest, addrs, pre });
        new
    }
}

impl Clone for Rec {
    fn clone(&self) -> Self {
        self.derive()
    }
}

// ------------------------------------------------------------------------------------------
// digests
pub trait Dg {
    fn dg(&self) -> u64;
}
macro_rules! dg_int {
    ($($t:ty),*) => {$(impl Dg for $t { fn dg(&self) -> u64 { mix(0x11, *self as u64) } })*};
}
dg_int!(u8, u16, u32, u64, usize, i8, i16, i32, i64, isize);
impl Dg for bool {
    fn dg(&self) -> u64 {
        mix(0x12, *self as u64)
    }
}
impl Dg for f32 {
    fn dg(&self) -> u64 {
        mix(0x13, self.to_bits() as u64)
    }
}
impl Dg for f64 {
    fn dg(&self) -> u64 {
        mix(0x14, self.to_bits())
    }
}
impl Dg for () {
    fn dg(&self) -> u64 {
        0x15
    }
}
impl Dg for str {
    fn dg(&self) -> u64 {
        self.as_bytes().dg()
    }
}
impl<T: Dg> Dg for [T] {
    fn dg(&self) -> u64 {
        let mut d = mix(0x16, self.len() as u64);
        for x in self {
            d = mix(d, x.dg());
        }
        d
    }
}
impl<T: Dg + ?Sized> Dg for &T {
    fn dg(&self) -> u64 {
        (**self).dg()
    }
}
impl<T: Dg + ?Sized> Dg for &mut T {
    fn dg(&self) -> u64 {
        (**self).dg()
    }
}
impl<T: Dg> Dg for Option<T> {
    fn dg(&self) -> u64 {
        match self {
            None => 0x17,
            Some(x) => mix(0x18, x.dg()),
        }
    }
}
impl<T: Dg, E: Dg> Dg for Result<T, E> {
    fn dg(&self) -> u64 {
        match self {
            Ok(x) => mix(0x19, x.dg()),
            Err(e) => mix(0x1a, e.dg()),
        }
    }
}
impl Dg for std::io::Error {
    fn dg(&self) -> u64 {
        mix(0x1b, self.raw_os_error().map(|c| c as u32 as u64).unwrap_or(0xffff_ffff_ffff))
    }
}
impl Dg for std::fmt::Error {
    fn dg(&self) -> u64 {
        0x1c
    }
}

#[repr(C)]
#[derive(Clone, Copy, Debug, PartialEq)]
pub struct P2 {
    pub a: u8,
    pub b: u32,
    pub c: u64,
    pub d: i16,
}
impl Dg for P2 {
    fn dg(&self) -> u64 {
        mix(mix(mix(mix(0x20, self.a as u64), self.b as u64), self.c), self.d as u16 as u64)
    }
}
impl P2 {
    pub fn from(x: u64) -> P2 {
        P2 { a: x as u8, b: (x >> 8) as u32, c: mix(x, 1), d: (x >> 40) as i16 }
    }
}

#[repr(C)]
#[derive(Clone, Copy, Debug, PartialEq)]
pub struct S3(pub [u8; 3]);
impl Dg for S3 {
    fn dg(&self) -> u64 {
        mix(0x21, self.0[0] as u64 | (self.0[1] as u64) << 8 | (self.0[2] as u64) << 16)
    }
}

/// argument of `impl Into<u64>` methods: counts conversions
pub struct IntoProbe(pub u64, pub Arc<Sink>);
impl From<IntoProbe> for u64 {
    fn from(p: IntoProbe) -> u64 {
        p.1.into_calls.fetch_add(1, Ordering::SeqCst);
        p.0
    }
}

/// what the caller observed around one call
#[derive(Default, Debug, Clone, PartialEq)]
pub struct Probe {
    /// addresses the caller passed (slices, strs, references), in argument order
    pub sent: Vec<usize>,
    /// address of a returned reference, if any: (which base 0 buf/1 words/2 text, address)
    pub ret: Option<(usize, usize)>,
    /// instance the call is expected to land on (None = do not check)
    pub target: Option<u64>,
}

pub fn rand_bytes(r: &mut Rng, max: usize) -> Vec<u8> {
    let n = if r.chance(1, 5) { 0 } else { r.below(max + 1) };
    (0..n).map(|_| r.next() as u8).collect()
}
pub fn rand_string(r: &mut Rng) -> String {
    const A: [&str; 6] = ["", "a", "\u{e9}", "\u{20ac}", "\u{1f600}", "\0"];
    let n = if r.chance(1, 5) { 0 } else { r.below(9) };
    let mut s = String::new();
    for _ in 0..n {
        s.push_str(A[1 + r.below(5)]);
    }
    s
}

/// Compare the two sinks after a step/history.  Returns a description of the first difference.
pub fn diff_sinks(o: &Sink, r: &Sink) -> Option<(String, String)> {
    if let Some(n) = o.model.lock().unwrap().first() {
        return Some(("callee-model".into(), n.clone()));
    }
    let lo = o.log.lock().unwrap();
    let lr = r.log.lock().unwrap();
    for (i, (a, b)) in lo.iter().zip(lr.iter()).enumerate() {
        if a.method != b.method {
            return Some(("wrong-method".into(), format!("event {}: object run reached {} on instance {:#x}, direct run reached {}", i, a.method, a.inst, b.method)));
        }
        if a.inst != b.inst {
            return Some(("wrong-instance".into(), format!("event {} ({}): instance {:#x} vs {:#x}", i, a.method, a.inst, b.inst)));
        }
        if a.digest != b.digest {
            return Some(("argument-altered".into(), format!("event {} ({}): implementor saw argument digest {:#x}, direct call saw {:#x}", i, a.method, a.digest, b.digest)));
        }
        if a.pre != b.pre {
            return Some(("state-diverged".into(), format!("event {} ({}): pre-state {:#x} vs {:#x}", i, a.method, a.pre, b.pre)));
        }
    }
    if lo.len() != lr.len() {
        let extra = if lo.len() > lr.len() { lo[lr.len()].method } else { lr[lo.len()].method };
        return Some(("call-count".into(), format!("object run logged {} calls, direct run {} (first unmatched: {})", lo.len(), lr.len(), extra)));
    }
    let so = o.states.lock().unwrap();
    let sr = r.states.lock().unwrap();
    if *so != *sr {
        return Some(("final-state".into(), format!("instance states differ: {:x?} vs {:x?}", *so, *sr)));
    }
    if o.into_calls.load(Ordering::SeqCst) != r.into_calls.load(Ordering::SeqCst) {
        return Some(("into-conversions".into(), format!("impl Into<T> converted {} times through the object, {} directly", o.into_calls.load(Ordering::SeqCst), r.into_calls.load(Ordering::SeqCst))));
    }
    None
}

/// address checks for the *object* run: what the implementor saw == what the caller sent, and a
/// returned reference points into the implementor's own storage at the same offset as in the
/// direct run.
pub fn addr_check(o: &Sink, r: &Sink, po: &Probe, pr: &Probe, new_events_from: usize) -> Option<(String, String)> {
    let lo = o.log.lock().unwrap();
    if let Some(e) = lo.get(new_events_from) {
        if !po.sent.is_empty() && e.addrs != po.sent {
            return Some(("argument-address".into(), format!("{}: caller sent addresses {:x?}, implementor saw {:x?} (slices/strings/references must not be copied)", e.method, po.sent, e.addrs)));
        }
        if let (Some((bo, ao)), Some((br, ar))) = (po.ret, pr.ret) {
            let lr = r.log.lock().unwrap();
            if let Some(er) = lr.get(new_events_from) {
                let base_o = o.bases.lock().unwrap().get(&e.inst).map(|b| b[bo]);
                let base_r = r.bases.lock().unwrap().get(&er.inst).map(|b| b[br]);
                if let (Some(x), Some(y)) = (base_o, base_r) {
                    if bo != br || ao.wrapping_sub(x) != ar.wrapping_sub(y) {
                        return Some(("returned-address".into(), format!("{}: returned reference at offset {:#x} of the implementor's storage, direct call returns offset {:#x}", e.method, ao.wrapping_sub(x), ar.wrapping_sub(y))));
                    }
                }
            }
        }
    }
    None
}

/// Ownership check at a quiescent point: every instance created in this sink whose owner is
/// gone must have been dropped exactly once; `alive` lists instance ids that must be alive.
pub fn ownership(s: &Sink, alive: &[u64]) -> Option<(String, String)> {
    for (inst, tid) in s.created.lock().unwrap().iter() {
        let d = tracked::drops_of(*tid);
        if alive.contains(inst) {
            if d != 0 {
                return Some(("dropped-while-owned-elsewhere".into(), format!("instance {:#x} must still be alive but was dropped {} times", inst, d)));
            }
        } else if d == 0 {
            return Some(("leaked".into(), format!("instance {:#x} was never dropped", inst)));
        } else if d > 1 {
            return Some(("double-drop".into(), format!("instance {:#x} dropped {} times", inst, d)));
        }
    }
    None
}
