#!/usr/bin/env python3
"""C03 workload: definitions over the bounded grammar -> real generator (expander) -> plain
source compiled with the FFI-safety lints denied.  usage: c03gen.py <outdir> <tier> <expander-binary>"""
import json
import os
import re
import subprocess
import sys

sys.path.insert(0, os.path.dirname(os.path.abspath(__file__)))
from shapes import ARG, ARGS, RET, RETS, INT_RETS, RECEIVERS  # noqa: E402
import gen  # noqa: E402
import hist  # noqa: E402

CASE_HEADER = """#![allow(dead_code, unused_imports, unused_variables, non_snake_case, non_camel_case_types, clippy::all, mismatched_lifetime_syntaxes, unused_unsafe, unused_mut, type_alias_bounds)]
use cglue::prelude::v1::*;
use cglue::*;
use gluert::{P2, S3};
use cglue::trait_group::c_void;
pub type AliasRes<T, E> = Result<T, E>;
pub type IoRes<T> = Result<T, std::io::Error>;
"""

PROBE_KINDS = ["Box", "Mut", "Ref", "ArcBox", "ArcMut", "ArcRef"]


def probes(tname, has_mut, has_own, generic=""):
    out = []
    kinds = ["Box", "ArcBox"]
    if not has_own:
        kinds += ["Mut", "ArcMut"]
        if not has_mut:
            kinds += ["Ref", "ArcRef"]
    for k in kinds:
        g = "<'static%s>" % ((", " + generic) if generic else "")
        out.append("pub extern \"C\" fn probe_%s_%s(_o: %s%s%s) {}" % (tname.lower(), k.lower(), tname, k, g))
        out.append("pub extern \"C\" fn probe_ref_%s_%s(_o: &%s%s%s) {}" % (tname.lower(), k.lower(), tname, k, g))
    return "\n".join(out)


def single_traits(tier):
    cases = []
    recvs = ["ref", "mut", "pinref", "pinmut", "own"]
    for a in ARGS:
        for rv in recvs:
            t = gen.Trait("A_%s_%s" % (a.key, rv), [gen.Method("m", rv, [a.key], "u64")])
            cases.append(("arg %s recv %s" % (a.key, rv), t))
    for r_ in RETS:
        for rv in recvs:
            if r_.needs_mut and not RECEIVERS[rv]["mut"]:
                continue
            if rv == "own" and "&" in r_.ty:
                continue
            t = gen.Trait("R_%s_%s" % (r_.key, rv), [gen.Method("m", rv, ["u64"], r_.key)])
            cases.append(("ret %s recv %s" % (r_.key, rv), t))
    # int_result on/off for Result returns
    from shapes import INT_RET
    for r_ in INT_RETS:
        for rv in recvs:
            t = gen.Trait("I_%s_%s" % (r_.key, rv), [gen.Method("m", rv, ["u32"], None, int_ret=r_.key)], int_result="")
            cases.append(("int_result ret %s recv %s" % (r_.key, rv), t))
    for rk in ("res", "res_p2"):
        for rv in recvs:
            t = gen.Trait("IN_%s_%s" % (rk, rv), [gen.Method("m", rv, ["u32"], rk, attrs=["no_int_result"])], int_result="")
            cases.append(("no_int_result ret %s recv %s" % (rk, rv), t))
            t = gen.Trait("IP_%s_%s" % (rk, rv), [gen.Method("m", rv, ["u32"], rk)])
            cases.append(("plain Result ret %s recv %s" % (rk, rv), t))
    if tier == "thorough":
        k = 0
        for a in ARGS:
            for r_ in RETS:
                rv = ["ref", "mut", "pinref", "pinmut"][k % 4]
                k += 1
                if r_.needs_mut and not RECEIVERS[rv]["mut"]:
                    rv = "mut"
                t = gen.Trait("X_%s_%s_%s" % (a.key, r_.key, rv), [gen.Method("m", rv, [a.key], r_.key)])
                cases.append(("arg %s ret %s recv %s" % (a.key, r_.key, rv), t))
        for i, a in enumerate(ARGS):
            b = ARGS[(i * 7 + 3) % len(ARGS)]
            t = gen.Trait("Y_%s_%s" % (a.key, b.key), [gen.Method("m", "mut", [a.key, b.key], "u64"), gen.Method("n", "ref", [b.key], "unit")])
            cases.append(("two args %s,%s" % (a.key, b.key), t))
    return cases



OPTION_LEAVES = [
    # (name, type, NPO?) -- NPO types stay Option<T>; the others must become COption<T>
    ("ref", "&u64"), ("barefn", "extern \"C\" fn(u32) -> u32"), ("nonnull", "::core::ptr::NonNull<u8>"), ("box", "Box<u64>"),
    ("nzu32", "::core::num::NonZeroU32"), ("nzi64", "::core::num::NonZeroI64"),
    ("u64", "u64"), ("bool", "bool"), ("f64", "f64"), ("p2", "P2"), ("rawptr", "*const u8"), ("usize", "usize"), ("i8", "i8"),
    ("cbox", "CBox<'static, u64>"), ("cvec", "CVec<u8>"), ("csliceref", "CSliceRef<'static, u8>"), ("carc", "CArc<u64>"), ("coption", "COption<u8>"),
]
RESULT_LEAVES = [
    ("u64_u8", "u64", "u8"), ("cbox_i32", "CBox<'static, u64>", "i32"), ("p2_p2", "P2", "P2"), ("bool_u8", "bool", "u8"),
    ("cvec_u16", "CVec<u8>", "u16"), ("rawptr_u8", "*const u8", "u8"),
]


def leaf_cases():
    out = []
    for name, ty in OPTION_LEAVES:
        for pos in ("arg", "ret"):
            for rv, recv in (("ref", "&self"), ("mut", "&mut self"), ("own", "self")):
                tn = "Ol_%s_%s_%s" % (name, pos, rv)
                if pos == "arg":
                    body = "#[cglue_trait]\npub trait %s { fn m(%s, a0: Option<%s>) -> u64; }" % (tn, recv, ty)
                else:
                    if "&" in ty and rv == "own":
                        continue
                    body = "#[cglue_trait]\npub trait %s { fn m(%s, a0: u32) -> Option<%s>; }" % (tn, recv, ty)
                out.append(("Option<%s> in %s position, recv %s" % (ty, pos, rv), tn, body + "\n" + probes(tn, rv == "mut", rv == "own")))
    for name, a, b in RESULT_LEAVES:
        for pos in ("arg", "ret"):
            tn = "Rl_%s_%s" % (name, pos)
            if pos == "arg":
                body = "#[cglue_trait]\npub trait %s { fn m(&self, a0: Result<%s, %s>) -> u64; }" % (tn, a, b)
            else:
                body = "#[cglue_trait]\npub trait %s { fn m(&mut self, a0: u32) -> Result<%s, %s>; }" % (tn, a, b)
            out.append(("Result<%s, %s> in %s position" % (a, b, pos), tn, body + "\n" + probes(tn, pos == "ret", False)))
    # the same shapes spelled with a path: `Option`/`Result` are recognised by their last segment
    qual = [("core_opt_arg", "fn m(&self, a0: core::option::Option<u32>) -> u64;"), ("abs_opt_arg", "fn m(&mut self, a0: ::core::option::Option<u64>, a1: u8) -> u64;"),
            ("std_opt_arg", "fn m(&self, a0: std::option::Option<P2>) -> u64;"), ("std_res_arg", "fn m(&self, a0: std::result::Result<u32, i32>) -> u64;"),
            ("abs_res_arg", "fn m(&self, a0: ::core::result::Result<u64, u8>) -> u64;"), ("core_opt_ret", "fn m(&self, a0: u8) -> core::option::Option<u32>;"),
            ("std_res_ret", "fn m(&mut self, a0: u8) -> std::result::Result<u32, i32>;"), ("abs_res_ret", "fn m(&self) -> ::core::result::Result<P2, u8>;"),
            ("std_opt_ref_arg", "fn m(&self, a0: std::option::Option<&u64>) -> u64;")]
    for name, sig in qual:
        tn = "Ql_" + name
        out.append(("qualified-path spelling: " + sig, tn, "#[cglue_trait]\npub trait %s { %s }" % (tn, sig) + "\n" + probes(tn, "&mut self" in sig, False)))
    # int_result attribute combinations: trait-level plain + method-level alias and the reverse.
    # A user alias of Result is only recognisable where an int_result(Alias) attribute names it.
    combos = [
        ("IrMixA", "#[int_result]", [("#[int_result(AliasRes)]", "AliasRes<u64, std::io::Error>"), ("", "Result<u64, std::io::Error>"), ("#[no_int_result]", "Result<u64, u8>")]),
        ("IrMixB", "#[int_result(AliasRes)]", [("#[int_result]", "Result<u64, std::io::Error>"), ("", "AliasRes<(), std::io::Error>"), ("#[no_int_result]", "Result<P2, u8>")]),
        ("IrMixC", "", [("#[int_result]", "Result<u64, ()>"), ("#[int_result(AliasRes)]", "AliasRes<P2, std::fmt::Error>"), ("", "Result<u64, u8>")]),
    ]
    for tn, tattr, ms in combos:
        lines = ["#[cglue_trait]"] + ([tattr] if tattr else []) + ["pub trait %s {" % tn]
        for i, (mattr, ty) in enumerate(ms):
            if mattr:
                lines.append("    " + mattr)
            lines.append("    fn m%d(&%sself, a0: u32) -> %s;" % (i, "mut " if i % 2 else "", ty))
        lines.append("}")
        out.append(("int_result attribute combination %s" % tn, tn, "\n".join(lines) + "\n" + probes(tn, True, False)))
    return out


def world_defs():
    """trait / group definitions of the lifecycle world (groups, aliased generics, wrapped
    associated types of all six kinds)"""
    src = hist.PRELUDE
    traits = re.findall(r"#\[cglue_trait\]\n(?:#\[cglue_forward\]\n)?pub trait .*?\n}\n", src, re.S)
    groups = re.findall(r"cglue_trait_group!\(.*?\);\n", src)
    return "".join(traits) + "".join(groups)


WORLD_PROBES = """
pub extern "C" fn p_h_box(_o: HBox<'static>) {}
pub extern "C" fn p_h_arcbox(_o: HArcBox<'static>) {}
pub extern "C" fn p_h_mut(_o: HMut<'static>) {}
pub extern "C" fn p_q_ref(_o: QRef<'static>) {}
pub extern "C" fn p_q_arcref(_o: QArcRef<'static>) {}
pub extern "C" fn p_hr_ref(_o: HRRef<'static>) {}
pub extern "C" fn p_facown(_o: FacOwnBox<'static>) {}
pub extern "C" fn p_facgrp(_o: FacGrpArcBox<'static>) {}
pub extern "C" fn p_facref(_o: FacRefBox<'static>) {}
pub extern "C" fn p_facmut(_o: FacMutArcBox<'static>) {}
pub extern "C" fn p_facgref(_o: FacGRefBox<'static>) {}
pub extern "C" fn p_facgmut(_o: FacGMutArcBox<'static>) {}
pub extern "C" fn p_facval(_o: FacValBox<'static>) {}
"""

EXTRA = """
#[cglue_trait]
pub trait GenT<T> {
    fn put(&mut self, v: T) -> T;
    fn peek(&self) -> &T;
}
#[cglue_trait]
pub trait Lt<'a, T: Eq + 'a> {
    fn lt(&self) -> &T;
    fn lt2(&self, v: u64) -> u64;
}
#[cglue_trait]
pub trait Unwrapped {
    type Plain;
    fn take_plain(self) -> Self::Plain;
}
#[cglue_trait]
pub trait Wrapped {
    #[wrap_with(*const c_void)]
    #[return_wrap(|ret| Box::leak(Box::new(ret)) as *mut _ as *const c_void)]
    type Ret;
    fn wrapped(&self) -> Self::Ret;
}
cglue_trait_group!(GenGroup<T>, GenT<T>, { Wrapped });
// traits listed in a group together with bindings for several associated types, written out of name order
#[cglue_trait]
pub trait Conv {
    type In;
    type Out;
    fn conv(&self, i: Self::In) -> Self::Out;
}
#[cglue_trait]
pub trait Tri {
    type A;
    type B;
    type C;
    fn tri(&self, a: Self::A, b: Self::B) -> Self::C;
}
cglue_trait_group!(PairG, Conv<Out = u64, In = u8>, { Tri<C = u32, A = u8, B = u16> });
pub extern "C" fn p_pairg(_o: PairGBox<'static>) {}
pub extern "C" fn p_gengroup(_o: GenGroupBox<'static, u64>) {}
pub extern "C" fn p_gent(_o: GenTBox<'static, u64>) {}
pub extern "C" fn p_gent2(_o: GenTMut<'static, P2>) {}
pub extern "C" fn p_lt(_o: LtRef<'static, u64>) {}
pub extern "C" fn p_wrapped(_o: WrappedBox<'static>) {}
"""

LIB_PROBES = """// every C-compatible wrapper type shipped by the library, by value and behind a pointer
#[repr(C)] pub struct Pod { a: u8, b: u32 }
macro_rules! probe { ($n:ident, $t:ty) => { pub extern "C" fn $n(_v: $t) {} }; }
probe!(l_cbox_u64, CBox<'static, u64>);
probe!(l_cbox_pod, CBox<'static, Pod>);
probe!(l_cbox_void, CBox<'static, c_void>);
probe!(l_cslicebox, CSliceBox<'static, u8>);
probe!(l_cslicebox_pod, CSliceBox<'static, Pod>);
probe!(l_carc, CArc<u64>);
probe!(l_carc_void, CArc<c_void>);
probe!(l_carcsome, CArcSome<Pod>);
probe!(l_carcsome_void, CArcSome<c_void>);
probe!(l_sliceref_u8, CSliceRef<'static, u8>);
probe!(l_sliceref_pod, CSliceRef<'static, Pod>);
probe!(l_slicemut_u64, CSliceMut<'static, u64>);
probe!(l_cvec_u8, CVec<u8>);
probe!(l_cvec_pod, CVec<Pod>);
probe!(l_coption_u64, COption<u64>);
probe!(l_coption_pod, COption<Pod>);
probe!(l_cresult, CResult<u64, u8>);
probe!(l_cresult_pod, CResult<Pod, i32>);
probe!(l_ctup1, CTup1<u8>);
probe!(l_ctup2, CTup2<u8, u64>);
probe!(l_ctup3, CTup3<u8, u64, Pod>);
probe!(l_ctup4, CTup4<u8, u64, Pod, f64>);
probe!(l_callback, Callback<'static, u64, u32>);
probe!(l_opaque_callback, OpaqueCallback<'static, u64>);
probe!(l_opaque_callback_pod, OpaqueCallback<'static, Pod>);
probe!(l_citer, CIterator<'static, u64>);
probe!(l_citer_pod, CIterator<'static, Pod>);
probe!(l_reprcstring, ReprCString);
probe!(l_reprcstr, ReprCStr<'static>);
probe!(l_fwd, Fwd<&'static mut c_void>);
probe!(l_container, cglue::trait_group::CGlueObjContainer<CBox<'static, c_void>, CArc<c_void>, ::core::marker::PhantomData<u8>>);
pub extern "C" fn l_ret_cvec() -> CVec<u64> { CVec::from(vec![]) }
pub extern "C" fn l_ret_coption() -> COption<Pod> { COption::None }
pub extern "C" fn l_ret_cresult() -> CResult<u8, Pod> { CResult::Ok(0) }
pub extern "C" fn l_ret_sliceref() -> CSliceRef<'static, u8> { CSliceRef::from("") }
"""

# the vtables of the traits cglue makes compatible itself (::ext): passed by value so that the lint looks at every entry
EXT_PROBES = """pub trait VtblOf { type V; }
impl<'a, T, V, C, R> VtblOf for cglue::trait_group::CGlueTraitObj<'a, T, V, C, R> { type V = V; }
macro_rules! vprobe { ($n:ident, $t:ty) => { pub extern "C" fn $n(_v: <$t as VtblOf>::V) {} }; }
vprobe!(v_clone, cglue::ext::core::clone::CloneBox<'static>);
vprobe!(v_asref, cglue::ext::core::convert::AsRefBox<'static, u64>);
vprobe!(v_asmut, cglue::ext::core::convert::AsMutBox<'static, P2>);
vprobe!(v_display, cglue::ext::core::fmt::DisplayBox<'static>);
vprobe!(v_debug, cglue::ext::core::fmt::DebugBox<'static>);
vprobe!(v_octal, cglue::ext::core::fmt::OctalBox<'static>);
vprobe!(v_lowerhex, cglue::ext::core::fmt::LowerHexBox<'static>);
vprobe!(v_upperhex, cglue::ext::core::fmt::UpperHexBox<'static>);
vprobe!(v_pointer, cglue::ext::core::fmt::PointerBox<'static>);
vprobe!(v_binary, cglue::ext::core::fmt::BinaryBox<'static>);
vprobe!(v_lowerexp, cglue::ext::core::fmt::LowerExpBox<'static>);
vprobe!(v_upperexp, cglue::ext::core::fmt::UpperExpBox<'static>);
vprobe!(v_future, cglue::ext::core::future::FutureBox<'static, u64>);
vprobe!(v_future_unit, cglue::ext::core::future::FutureArcBox<'static, ()>);
vprobe!(v_stream, cglue::ext::futures::stream::StreamBox<'static, u64>);
vprobe!(v_sink, cglue::ext::futures::sink::SinkBox<'static, u64, u8>);
"""

TASK_PROBES = """use cglue::task::CRefWaker;
pub extern "C" fn l_crefwaker(_v: CRefWaker<'static>) {}
pub extern "C" fn l_crefwaker_ref(_v: &CRefWaker<'static>) {}
"""


def main():
    outdir, tier, expander = sys.argv[1], sys.argv[2], sys.argv[3]
    os.makedirs(os.path.join(outdir, "src", "cases"), exist_ok=True)
    os.makedirs(os.path.join(outdir, "defs"), exist_ok=True)
    cases = []
    for desc, t in single_traits(tier):
        body = gen.emit_trait(t) + "\n" + probes(t.name, t.has_mut, t.has_own)
        cases.append((desc, t.name, body))
    for t in gen.multi_method_traits(None, tier) + gen.int_result_traits(None, tier):
        if any((m.int_ret or "").startswith("plain_io") for m in t.methods):
            continue    # CResult<_, io::Error>: io::Error is not a C-representable leaf type, outside C03's premise
        body = gen.emit_trait(t) + "\n" + probes(t.name, t.has_mut, t.has_own)
        cases.append(("corpus trait " + t.name, t.name, body))
    cases += leaf_cases()
    cases.append(("lifecycle world: groups H, HR, Q (aliased generic instantiations), six kinds of wrapped associated types", "World", world_defs() + WORLD_PROBES))
    cases.append(("generic / lifetime / unwrapped / wrap_with traits and a generic group", "Extra", EXTRA))
    cases.append(("library wrapper types", "Lib", LIB_PROBES))
    cases.append(("task types", "Task", TASK_PROBES))
    cases.append(("vtables of the built-in ::ext traits (clone, convert, fmt, future, stream, sink)", "Ext", EXT_PROBES))
    # AliasRes variant needs the alias ret
    meta = []
    mods = []
    env = dict(os.environ)
    env["CARGO_MANIFEST_DIR"] = outdir
    for i, (desc, name, body) in enumerate(cases):
        dpath = os.path.join(outdir, "defs", "case_%d.rs" % i)
        with open(dpath, "w") as f:
            f.write(CASE_HEADER + body + "\n")
        r = subprocess.run([expander, dpath], capture_output=True, text=True, env=env)
        if r.returncode != 0:
            meta.append(dict(case=i, desc=desc, name=name, expander_failed=r.stderr[-600:]))
            continue
        text = r.stdout
        # the file-level attributes are printed first as `# ! [...]`: keep them as inner attributes
        opath = os.path.join(outdir, "src", "cases", "case_%d.rs" % i)
        old = open(opath).read() if os.path.exists(opath) else None
        if old != text:
            with open(opath, "w") as f:
                f.write(text)
        mods.append(i)
        meta.append(dict(case=i, desc=desc, name=name, expanded_bytes=len(text)))
    lib = "#![deny(improper_ctypes_definitions, improper_ctypes)]\n#![allow(dead_code, unused_imports)]\n// cglue-gen emits `crate::trait_group` for borrowed wrapped associated types: users need this glob at the crate root\npub use cglue::*;\n// canary: proves the oracle (the compiler's lint) is alive in this build\n#[warn(improper_ctypes_definitions)]\npub mod canary { pub extern \"C\" fn bad(_t: (u8, u16)) {} pub extern \"C\" fn bad2() -> Option<&'static [u8]> { None } }\npub mod cases {\n" + "".join("    pub mod case_%d;\n" % i for i in mods) + "}\n"
    lp = os.path.join(outdir, "src", "lib.rs")
    if not os.path.exists(lp) or open(lp).read() != lib:
        with open(lp, "w") as f:
            f.write(lib)
    cargo = """[package]
name = "c03check"
version = "0.1.0"
edition = "2021"

[workspace]

[dependencies]
cglue = { path = "/repo/cglue", features = ["task", "futures"] }
gluert = { path = "/verif/gluert" }
vmon = { path = "/verif/vmon" }
"""
    cp = os.path.join(outdir, "Cargo.toml")
    if not os.path.exists(cp) or open(cp).read() != cargo:
        with open(cp, "w") as f:
            f.write(cargo)
    with open(os.path.join(outdir, "c03.json"), "w") as f:
        json.dump(dict(tier=tier, cases=meta), f, indent=1)
    print("cases: %d (expander failures: %d)" % (len(cases), sum(1 for m in meta if "expander_failed" in m)))


if __name__ == "__main__":
    main()
