#!/usr/bin/env python3
"""C20 workload: pairs (definition, single-edit variant) in sibling modules of one crate built
with `layout_checks`; the generated main compares the layout descriptions with the library's
`compare_layouts` and prints the verdicts.  The expectation (C-visible interfaces equal or
not) is computed here from our own signature table.  usage: c20gen.py <outdir> <tier>"""
import copy
import json
import os
import sys


class M:
    def __init__(self, name, recv, args, ret, attrs=()):
        self.name, self.recv, self.args, self.ret, self.attrs = name, recv, list(args), ret, list(attrs)

    def sig(self):
        r = {"ref": "&self", "mut": "&mut self", "own": "self"}[self.recv]
        a = "".join(", a%d: %s" % (i, t) for i, t in enumerate(self.args))
        ret = (" -> " + self.ret) if self.ret else ""
        attrs = "".join("    #[%s]\n" % x for x in self.attrs)
        return "%s    fn %s(%s%s)%s;" % (attrs, self.name, r, a, ret)

    def ctable(self, trait_int_result):
        """what a C caller sees of this entry"""
        ret = self.ret
        ir = ("int_result" in self.attrs or trait_int_result) and "no_int_result" not in self.attrs and ret.startswith("Result<")
        return (self.name, self.recv, tuple(self.args), ret, ir)


class T:
    def __init__(self, name, methods, int_result=False):
        self.name, self.methods, self.int_result = name, methods, int_result

    def emit(self):
        out = ["#[cglue_trait]"]
        if self.int_result:
            # a documented trait: the marker is not the first attribute
            out.append("/// Integer-coded results for every Result-returning entry.")
            out.append("#[allow(clippy::all)]")
            out.append("#[int_result]")
        out.append("pub trait %s {" % self.name)
        out += [m.sig() for m in self.methods]
        out.append("}")
        return "\n".join(out)

    def ctable(self):
        return tuple(m.ctable(self.int_result) for m in self.methods)


BASES = [
    T("Alpha", [
        M("first", "ref", ["u32"], "u32"),
        M("second", "mut", ["u64", "u8"], "u64"),
        M("third", "ref", ["&[u8]"], "usize"),
        M("fourth", "mut", ["&str", "Option<u64>"], "Option<u64>"),
        M("fifth", "ref", ["Pod"], "Pod"),
        M("sixth", "ref", ["u32"], "Result<u64, ()>", attrs=["int_result"]),
        M("seventh", "mut", ["u32"], "u32"),
    ]),
    T("Beta", [
        M("same_a", "mut", ["u64"], "u64"),
        M("same_b", "mut", ["u64"], "u64"),
        M("same_c", "mut", ["u64"], "u64"),
        M("finish", "own", [], "u64"),
    ]),
    T("Delta", [
        M("feed", "ref", ["OpaqueCallback<u32>"], "u32"),
        M("drain", "mut", ["CIterator<u32>", "u8"], "u64"),
        M("bytes", "ref", ["CSliceRef<u8>"], "usize"),
        M("pods", "mut", ["OpaqueCallback<Pod>", "CSliceMut<u32>"], ""),
        M("maybe", "ref", ["COption<u32>"], "COption<u64>"),
        M("fallible", "mut", ["Option<u32>"], "Result<u32, u32>"),
        M("coded", "ref", ["u8"], "Result<Pod, Pod>"),
    ]),
    T("Gamma", [
        M("res_a", "ref", ["u8"], "Result<u32, ()>"),
        M("res_b", "mut", ["u8"], "Result<(), ()>"),
        M("plain", "ref", ["f64", "bool"], "f64"),
    ], int_result=True),
]

ARG_SWAPS = {"u32": ["u64", "i32", "u16"], "u64": ["u32", "i64", "usize"], "u8": ["i8", "u16"], "&[u8]": ["&[u16]", "&[u32]", "&mut [u8]"], "&str": ["&[u16]"],
             "Option<u64>": ["Option<u32>", "u64"], "Pod": ["Pod2"], "f64": ["f32", "u64"], "bool": ["u8"], "usize": ["u32"],
             # the element type of the library's own generic FFI types is part of the entry's C signature
             "OpaqueCallback<u32>": ["OpaqueCallback<u64>", "OpaqueCallback<Pod>"], "CIterator<u32>": ["CIterator<u64>", "CIterator<i32>"], "CSliceRef<u8>": ["CSliceRef<u16>", "CSliceMut<u8>"],
             "OpaqueCallback<Pod>": ["OpaqueCallback<Pod2>"], "CSliceMut<u32>": ["CSliceMut<u64>"], "COption<u32>": ["COption<f32>", "COption<u64>", "u32"], "Option<u32>": ["Option<f32>", "Option<i32>", "Option<u64>"]}
RET_SWAPS = {"u32": ["u64", "i32", ""], "u64": ["u32", "i64"], "usize": ["u32"], "Option<u64>": ["Option<u32>", "u64"], "Pod": ["Pod2"], "f64": ["f32"],
             "Result<u64, ()>": ["Result<u32, ()>"], "Result<u32, ()>": ["Result<u64, ()>"], "Result<(), ()>": ["Result<u8, ()>"], "COption<u64>": ["COption<f64>", "COption<u32>"],
             # same size and alignment on either side of a Result that crosses as CResult
             "Result<u32, u32>": ["Result<u32, f32>", "Result<f32, u32>", "Result<u32, i32>"], "Result<Pod, Pod>": ["Result<Pod, PodF>", "Result<PodF, Pod>"]}


def variants(base, tier):
    out = []

    def add(desc, t):
        out.append((desc, t))
    add("identical copy", copy.deepcopy(base))
    n = len(base.methods)
    # add
    for pos in ([0, n] if tier == "quick" else range(n + 1)):
        t = copy.deepcopy(base)
        t.methods.insert(pos, M("added", "ref", ["u32"], "u32"))
        add("add method at %d" % pos, t)
    # remove
    for i in range(n):
        t = copy.deepcopy(base)
        del t.methods[i]
        add("remove method %s" % base.methods[i].name, t)
    # rename
    for i in range(n):
        t = copy.deepcopy(base)
        t.methods[i].name = t.methods[i].name + "_x"
        add("rename method %s" % base.methods[i].name, t)
    # reorder (adjacent swaps, incl. same-signature neighbours)
    for i in range(n - 1):
        t = copy.deepcopy(base)
        t.methods[i], t.methods[i + 1] = t.methods[i + 1], t.methods[i]
        add("swap methods %s,%s" % (base.methods[i].name, base.methods[i + 1].name), t)
    # argument types
    for i, m in enumerate(base.methods):
        for j, a in enumerate(m.args):
            for alt in ARG_SWAPS.get(a, [])[: (1 if tier == "quick" and base.name != "Delta" else 9)]:
                t = copy.deepcopy(base)
                t.methods[i].args[j] = alt
                add("method %s: argument %d %s -> %s" % (m.name, j, a, alt), t)
        # extra / fewer arguments
        t = copy.deepcopy(base)
        t.methods[i].args.append("u8")
        add("method %s: one more argument" % m.name, t)
        if m.args:
            t = copy.deepcopy(base)
            t.methods[i].args.pop()
            add("method %s: one argument fewer" % m.name, t)
    # return types
    for i, m in enumerate(base.methods):
        for alt in RET_SWAPS.get(m.ret, [])[: (1 if tier == "quick" and base.name != "Delta" else 9)]:
            t = copy.deepcopy(base)
            t.methods[i].ret = alt
            add("method %s: return %s -> %s" % (m.name, m.ret or "()", alt or "()"), t)
    # receiver kind
    for i, m in enumerate(base.methods):
        for alt in ("ref", "mut", "own"):
            if alt == m.recv or (alt == "own" and "&" in m.ret):
                continue
            t = copy.deepcopy(base)
            t.methods[i].recv = alt
            add("method %s: receiver %s -> %s" % (m.name, m.recv, alt), t)
    # int_result toggles
    for i, m in enumerate(base.methods):
        if m.ret.startswith("Result<") and base.name != "Delta":   # Delta's error types have no integer form
            t = copy.deepcopy(base)
            if base.int_result:
                t.methods[i].attrs = [a for a in t.methods[i].attrs if a != "no_int_result"] + (["no_int_result"] if "no_int_result" not in m.attrs else [])
            else:
                if "int_result" in m.attrs:
                    t.methods[i].attrs.remove("int_result")
                else:
                    t.methods[i].attrs.append("int_result")
            add("method %s: toggle int_result" % m.name, t)
    return out


HEADER = """// GENERATED by /verif/glue/c20gen.py
#![allow(dead_code, unused_imports, unused_variables, non_snake_case, clippy::all, mismatched_lifetime_syntaxes)]
use abi_stable::StableAbi;
use cglue::prelude::v1::*;
use cglue::trait_group::{compare_layouts, VerifyLayout};
use cglue::*;

#[repr(C)]
#[derive(Clone, Copy, StableAbi)]
pub struct Pod { pub a: u8, pub b: u32 }
#[repr(C)]
#[derive(Clone, Copy, StableAbi)]
pub struct Pod2 { pub a: u8, pub b: u64 }
#[repr(C)]
#[derive(Clone, Copy, StableAbi)]
pub struct PodF { pub a: u8, pub b: f32 }

fn vname(v: VerifyLayout) -> &'static str {
    match v { VerifyLayout::Valid => "Valid", VerifyLayout::Invalid => "Invalid", VerifyLayout::Unknown => "Unknown" }
}
"""

GROUPS = r"""
// ---- groups: set / order / instantiation of traits ------------------------------------------
pub mod gtraits {
    use super::*;
    #[cglue_trait] pub trait Ma { fn ma(&self) -> u64; }
    #[cglue_trait] pub trait Mb { fn mb(&self) -> u64; }
    #[cglue_trait] pub trait Oa { fn oa(&self) -> u64; }
    #[cglue_trait] pub trait Ob { fn ob(&self) -> u64; }
    #[cglue_trait] pub trait Oc { fn oc(&self) -> u64; }
    #[cglue_trait] pub trait Og<T> { fn og(&self, v: T) -> T; }
}
"""

GROUP_VARIANTS = [
    ("identical copy", "Grp, Ma, { Oa, Ob }", True),
    ("same traits listed in another order", "Grp, Ma, { Ob, Oa }", True),
    ("add an optional trait", "Grp, Ma, { Oa, Ob, Oc }", False),
    ("remove an optional trait", "Grp, Ma, { Oa }", False),
    ("replace an optional trait", "Grp, Ma, { Oa, Oc }", False),
    ("add a mandatory trait", "Grp, { Ma, Mb }, { Oa, Ob }", False),
    ("optional becomes mandatory", "Grp, { Ma, Oa }, { Ob }", False),
    ("different mandatory trait", "Grp, Mb, { Oa, Ob }", False),
]
GENERIC_GROUP_VARIANTS = [
    ("identical copy", "GGrp, Ma, { Og<u8> = OgA, Og<u64> = OgB }", True),
    ("change a generic instantiation", "GGrp, Ma, { Og<u8> = OgA, Og<u32> = OgB }", False),
    ("swap the aliases of two instantiations", "GGrp, Ma, { Og<u8> = OgB, Og<u64> = OgA }", False),
    ("rename an alias so that the order changes", "GGrp, Ma, { Og<u8> = OgZ, Og<u64> = OgB }", False),
]


# methods whose return value is wrapped by cglue (`-> Self`, `-> Self::Assoc` wrapped into an object): edits of their own
# signature, and of the interface of the object they hand out, are edits of the C-visible interface like any other
WRAPPED_BASE = """    #[cglue_trait] pub trait Inner { fn val(&self, a0: u32) -> u32; }
    #[cglue_trait] pub trait Outer {
        #[wrap_with_obj(Inner)]
        type A: Inner + 'static;
        fn get(&self, a0: u32) -> Self::A;
        fn dup(&self, a0: u32) -> Self;
        fn plain(&self, a0: u32) -> u32;
    }"""
WRAPPED_EDITS = [
    ("identical copy", None, None, True),
    ("wrapped-return method get: argument u32 -> i32", "fn get(&self, a0: u32) -> Self::A;", "fn get(&self, a0: i32) -> Self::A;", False),
    ("wrapped-return method get: one more argument", "fn get(&self, a0: u32) -> Self::A;", "fn get(&self, a0: u32, a1: u8) -> Self::A;", False),
    ("wrapped-return method get: receiver ref -> mut", "fn get(&self, a0: u32) -> Self::A;", "fn get(&mut self, a0: u32) -> Self::A;", False),
    ("Self-returning method dup: argument u32 -> i32", "fn dup(&self, a0: u32) -> Self;", "fn dup(&self, a0: i32) -> Self;", False),
    ("Self-returning method dup: renamed", "fn dup(&self, a0: u32) -> Self;", "fn dup2(&self, a0: u32) -> Self;", False),
    ("interface of the returned object: Inner::val returns i32", "fn val(&self, a0: u32) -> u32;", "fn val(&self, a0: u32) -> i32;", False),
    ("interface of the returned object: Inner gains a method", "fn val(&self, a0: u32) -> u32;", "fn val(&self, a0: u32) -> u32; fn val2(&self) -> u8;", False),
    ("plain method next to them: argument u32 -> u64", "fn plain(&self, a0: u32) -> u32;", "fn plain(&self, a0: u64) -> u32;", False),
]

# a trait with several type parameters: every expansion of the identical definition (what a host and a plugin each do for themselves) must describe
# the same layout; instantiations and uses of the parameters that differ must not
MULTI_BASE = """    #[cglue_trait] pub trait Multi<A, B, C, D> {
        fn m(&self, a: A, b: B) -> C;
        fn d(&mut self, c: C) -> D;
    }"""
MULTI_INST = "u8, u16, u32, u64"
MULTI_EDITS = [("identical copy (expansion %d)" % i, None, None, MULTI_INST, True) for i in range(2, 8)] + [
    ("two parameters swapped in an entry", "fn m(&self, a: A, b: B) -> C;", "fn m(&self, a: B, b: A) -> C;", MULTI_INST, False),
    ("argument and return parameters swapped", "fn d(&mut self, c: C) -> D;", "fn d(&mut self, c: D) -> C;", MULTI_INST, False),
    ("identical definition, other instantiation", None, None, "u16, u8, u32, u64", False),
    ("identical definition, last parameter instantiated differently", None, None, "u8, u16, u32, i64", False),
]

# single edits *inside* a trait of the group; the group definition itself is unchanged and the comparison goes through the group's layout
GTRAIT_LINES = {
    "Ma": "#[cglue_trait] pub trait Ma { fn ma(&self) -> u64; }",
    "Oa": "#[cglue_trait] pub trait Oa { fn oa(&self) -> u64; }",
    "Ob": "#[cglue_trait] pub trait Ob { fn ob(&self) -> u64; }",
}
GROUP_TRAIT_EDITS = [
    ("optional trait Oa: return type changed", "Oa", "#[cglue_trait] pub trait Oa { fn oa(&self) -> u32; }"),
    ("optional trait Oa: argument added", "Oa", "#[cglue_trait] pub trait Oa { fn oa(&self, x: u8) -> u64; }"),
    ("optional trait Oa: receiver changed", "Oa", "#[cglue_trait] pub trait Oa { fn oa(&mut self) -> u64; }"),
    ("optional trait Oa: method renamed", "Oa", "#[cglue_trait] pub trait Oa { fn oa_renamed(&self) -> u64; }"),
    ("optional trait Oa: method added", "Oa", "#[cglue_trait] pub trait Oa { fn oa(&self) -> u64; fn oa2(&self) -> u64; }"),
    ("optional trait Ob (last): argument type changed", "Ob", "#[cglue_trait] pub trait Ob { fn ob(&self, p: Pod) -> u64; }"),
    ("mandatory trait Ma: return type changed", "Ma", "#[cglue_trait] pub trait Ma { fn ma(&self) -> i64; }"),
    ("mandatory trait Ma: method added", "Ma", "#[cglue_trait] pub trait Ma { fn ma(&self) -> u64; fn ma2(&mut self, v: u64); }"),
]


def main():
    outdir, tier = sys.argv[1], sys.argv[2]
    os.makedirs(os.path.join(outdir, "src"), exist_ok=True)
    body = [HEADER, GROUPS]
    checks = []
    meta = []
    k = 0
    for base in BASES:
        body.append("pub mod base_%s {\n    use super::*;\n%s\n}" % (base.name.lower(), base.emit()))
        kinds = ["Box", "ArcBox"] if any(m.recv == "own" for m in base.methods) else ["Box", "Mut", "ArcBox"]
        for desc, v in variants(base, tier):
            k += 1
            mod = "v%d" % k
            body.append("pub mod %s {\n    use super::*;\n%s\n}" % (mod, v.emit()))
            equal = v.ctable() == base.ctable()
            vk = [x for x in kinds if not (x == "Mut" and any(m.recv == "own" for m in v.methods))]
            for kind in (vk if tier == "thorough" else vk[:1]):
                a = "base_%s::%s%s<'static>" % (base.name.lower(), base.name, kind)
                b = "%s::%s%s<'static>" % (mod, v.name, kind)
                checks.append((len(meta), a, b))
                meta.append(dict(id=len(meta), base=base.name, edit=desc, kind=kind, interfaces_equal=equal))
    for gname, variants_, mk in (("Grp", GROUP_VARIANTS, "Grp, Ma, { Oa, Ob }"), ("GGrp", GENERIC_GROUP_VARIANTS, "GGrp, Ma, { Og<u8> = OgA, Og<u64> = OgB }")):
        body.append("pub mod base_%s {\n    use super::*;\n    use super::gtraits::*;\n    cglue_trait_group!(%s);\n}" % (gname.lower(), mk))
        for desc, args, equal in variants_:
            k += 1
            mod = "g%d" % k
            body.append("pub mod %s {\n    use super::*;\n    use super::gtraits::*;\n    cglue_trait_group!(%s);\n}" % (mod, args))
            for kind in ("Box", "Ref", "ArcBox"):
                a = "base_%s::%s%s<'static>" % (gname.lower(), gname, kind)
                b = "%s::%s%s<'static>" % (mod, gname, kind)
                checks.append((len(meta), a, b))
                meta.append(dict(id=len(meta), base=gname, edit=desc, kind=kind, interfaces_equal=equal))
    for ei, (desc, tname, newline) in enumerate(GROUP_TRAIT_EDITS):
        k += 1
        gt = GROUPS.replace("pub mod gtraits {", "pub mod gtraits_e%d {" % ei).replace(GTRAIT_LINES[tname], newline)
        assert gt.count(newline) == 1
        body.append(gt)
        mod = "ge%d" % ei
        body.append("pub mod %s {\n    use super::*;\n    use super::gtraits_e%d::*;\n    cglue_trait_group!(Grp, Ma, { Oa, Ob });\n}" % (mod, ei))
        for kind in ("Box", "Ref", "ArcBox"):
            if kind == "Ref" and "&mut self" in newline:
                continue
            a = "base_grp::Grp%s<'static>" % kind
            b = "%s::Grp%s<'static>" % (mod, kind)
            checks.append((len(meta), a, b))
            meta.append(dict(id=len(meta), base="Grp", edit=desc, kind=kind, interfaces_equal=False))
    body.append("pub mod wbase {\n    use super::*;\n%s\n}" % WRAPPED_BASE)
    for wi, (desc, a_, b_, equal) in enumerate(WRAPPED_EDITS):
        text = WRAPPED_BASE if a_ is None else WRAPPED_BASE.replace(a_, b_)
        assert a_ is None or text != WRAPPED_BASE
        body.append("pub mod w%d {\n    use super::*;\n%s\n}" % (wi, text))
        for kind in ("Box", "ArcBox"):
            checks.append((len(meta), "wbase::Outer%s<'static>" % kind, "w%d::Outer%s<'static>" % (wi, kind)))
            meta.append(dict(id=len(meta), base="Outer", edit=desc, kind=kind, interfaces_equal=equal))
    body.append("pub mod mbase {\n    use super::*;\n%s\n}" % MULTI_BASE)
    for wi, (desc, a_, b_, inst, equal) in enumerate(MULTI_EDITS):
        text = MULTI_BASE if a_ is None else MULTI_BASE.replace(a_, b_)
        assert a_ is None or text != MULTI_BASE
        body.append("pub mod mu%d {\n    use super::*;\n%s\n}" % (wi, text))
        for kind in ("Box", "ArcBox"):
            checks.append((len(meta), "mbase::Multi%s<'static, %s>" % (kind, MULTI_INST), "mu%d::Multi%s<'static, %s>" % (wi, kind, inst)))
            meta.append(dict(id=len(meta), base="Multi", edit=desc, kind=kind, interfaces_equal=equal))
    body.append("fn main() {")
    for i, a, b in checks:
        body.append("    println!(\"{{\\\"k\\\":\\\"pair\\\",\\\"id\\\":%d,\\\"ab\\\":\\\"{}\\\",\\\"ba\\\":\\\"{}\\\",\\\"aa\\\":\\\"{}\\\",\\\"a_none\\\":\\\"{}\\\",\\\"none_b\\\":\\\"{}\\\"}}\", vname(compare_layouts(Some(<%s as StableAbi>::LAYOUT), Some(<%s as StableAbi>::LAYOUT))), vname(compare_layouts(Some(<%s as StableAbi>::LAYOUT), Some(<%s as StableAbi>::LAYOUT))), vname(compare_layouts(Some(<%s as StableAbi>::LAYOUT), Some(<%s as StableAbi>::LAYOUT))), vname(compare_layouts(Some(<%s as StableAbi>::LAYOUT), None)), vname(compare_layouts(None, Some(<%s as StableAbi>::LAYOUT))));" % (i, a, b, b, a, a, a, a, b))
    body.append("""    // verdict algebra: all nine ordered pairs
    let mk = |i: usize| match i { 0 => VerifyLayout::Valid, 1 => VerifyLayout::Invalid, _ => VerifyLayout::Unknown };
    for i in 0..3 { for j in 0..3 {
        println!("{{\\"k\\":\\"and\\",\\"x\\":\\"{}\\",\\"y\\":\\"{}\\",\\"r\\":\\"{}\\",\\"strict_x\\":{},\\"relaxed_x\\":{}}}", vname(mk(i)), vname(mk(j)), vname(mk(i).and(mk(j))), mk(i).is_valid_strict(), mk(i).is_valid_relaxed());
    } }
    println!("{{\\"k\\":\\"none\\",\\"r\\":\\"{}\\"}}", vname(compare_layouts(None, None)));
    println!("{{\\"k\\":\\"check\\",\\"same\\":\\"{}\\",\\"none\\":\\"{}\\"}}", vname(VerifyLayout::check::<Pod>(Some(<Pod as StableAbi>::LAYOUT))), vname(VerifyLayout::check::<Pod>(None)));
    println!("{{\\"k\\":\\"done\\"}}");
}""")
    text = "\n".join(body) + "\n"
    p = os.path.join(outdir, "src", "main.rs")
    if not os.path.exists(p) or open(p).read() != text:
        open(p, "w").write(text)
    cargo = """[package]
name = "c20check"
version = "0.1.0"
edition = "2021"

[workspace]

[dependencies]
cglue = { path = "/repo/cglue", features = ["layout_checks"] }
abi_stable = "0.10"

[profile.dev]
opt-level = 0
debug = 0
"""
    p = os.path.join(outdir, "Cargo.toml")
    if not os.path.exists(p) or open(p).read() != cargo:
        open(p, "w").write(cargo)
    json.dump(dict(tier=tier, pairs=meta), open(os.path.join(outdir, "c20.json"), "w"), indent=1)
    print("pairs: %d (equal interfaces: %d)" % (len(meta), sum(1 for m in meta if m["interfaces_equal"])))


if __name__ == "__main__":
    main()
