"""Bounded grammar of the glue corpus: receivers, argument shapes, return shapes.
Every shape knows (a) its type in the trait signature, (b) how the *caller* builds a value
from the PRNG `r` (and which addresses it sends), (c) what the *implementor* folds into the
argument digest `d` / address list `ad`, and what it writes back, (d) how the caller digests
what came back.  Names: argument i is `a{i}`; caller-owned storage is `s{i}`."""

RECEIVERS = {
    "ref": dict(sig="&self", mut=False, pin=False, own=False),
    "mut": dict(sig="&mut self", mut=True, pin=False, own=False),
    "pinref": dict(sig="self: ::core::pin::Pin<&Self>", mut=False, pin=True, own=False),
    "pinmut": dict(sig="self: ::core::pin::Pin<&mut Self>", mut=True, pin=True, own=False),
    "own": dict(sig="self", mut=True, pin=False, own=True),
}


class Arg:
    def __init__(self, key, ty, setup, pas, callee, post="", write="", c_kind="scalar"):
        self.key, self.ty, self.setup, self.pas, self.callee, self.post, self.write = key, ty, setup, pas, callee, post, write
        self.c_kind = c_kind  # how the argument appears in C (for C03/C20 tables)

    def fmt(self, s, i):
        return s.replace("{i}", str(i))


def _scalar(key, ty, expr, bits=None):
    return Arg(key, ty, "let a{i}: %s = %s;" % (ty, expr), "a{i}", "d = mix(d, (%s).dg());" % (bits or "a{i}"))


ARGS = [
    _scalar("u8", "u8", "r.edgy() as u8"),
    _scalar("u16", "u16", "r.edgy() as u16"),
    _scalar("u32", "u32", "r.edgy() as u32"),
    _scalar("u64", "u64", "r.edgy()"),
    _scalar("usize", "usize", "r.edgy() as usize"),
    _scalar("i8", "i8", "r.edgy() as i8"),
    _scalar("i32", "i32", "r.edgy() as i32"),
    _scalar("i64", "i64", "r.edgy() as i64"),
    _scalar("bool", "bool", "r.chance(1, 2)"),
    _scalar("f32", "f32", "f32::from_bits(r.edgy() as u32)"),
    _scalar("f64", "f64", "f64::from_bits(r.edgy())"),
    Arg("p2", "P2", "let a{i}: P2 = P2::from(r.edgy());", "a{i}", "d = mix(d, a{i}.dg());", c_kind="struct"),
    Arg("ref_u64", "&u64", "let s{i}: Box<u64> = Box::new(r.edgy()); pb.sent.push(&*s{i} as *const u64 as usize);", "&*s{i}",
        "d = mix(d, a{i}.dg()); ad.push(a{i} as *const u64 as usize);", c_kind="ptr"),
    Arg("mut_u64", "&mut u64", "let mut s{i}: Box<u64> = Box::new(r.edgy()); pb.sent.push(&*s{i} as *const u64 as usize);", "&mut *s{i}",
        "d = mix(d, a{i}.dg()); ad.push(&*a{i} as *const u64 as usize);", post="out = mix(out, (*s{i}).dg());", write="*a{i} = mix(st, {i});", c_kind="ptr"),
    Arg("slice_u8", "&[u8]", "let s{i}: Vec<u8> = rand_bytes(r, 24); pb.sent.push(s{i}.as_ptr() as usize); pb.sent.push(s{i}.len());", "&s{i}[..]",
        "d = mix(d, a{i}.dg()); ad.push(a{i}.as_ptr() as usize); ad.push(a{i}.len());", c_kind="slice"),
    Arg("slice_u64", "&[u64]", "let s{i}: Vec<u64> = (0..r.below(7)).map(|_| r.edgy()).collect(); pb.sent.push(s{i}.as_ptr() as usize); pb.sent.push(s{i}.len());", "&s{i}[..]",
        "d = mix(d, a{i}.dg()); ad.push(a{i}.as_ptr() as usize); ad.push(a{i}.len());", c_kind="slice"),
    Arg("slice_zst", "&[()]", "let s{i}: Vec<()> = vec![(); r.below(5)]; pb.sent.push(s{i}.len());", "&s{i}[..]",
        "d = mix(d, a{i}.len() as u64); ad.push(a{i}.len());", c_kind="slice"),
    Arg("slice_s3", "&[S3]", "let s{i}: Vec<S3> = (0..r.below(6)).map(|_| { let x = r.next(); S3([x as u8, (x >> 8) as u8, (x >> 16) as u8]) }).collect(); pb.sent.push(s{i}.as_ptr() as usize); pb.sent.push(s{i}.len());", "&s{i}[..]",
        "d = mix(d, a{i}.dg()); ad.push(a{i}.as_ptr() as usize); ad.push(a{i}.len());", c_kind="slice"),
    Arg("mut_slice_u8", "&mut [u8]", "let mut s{i}: Vec<u8> = rand_bytes(r, 24); pb.sent.push(s{i}.as_ptr() as usize); pb.sent.push(s{i}.len());", "&mut s{i}[..]",
        "d = mix(d, a{i}.dg()); ad.push(a{i}.as_ptr() as usize); ad.push(a{i}.len());",
        post="out = mix(out, s{i}.dg());", write="for (k, b) in a{i}.iter_mut().enumerate() { *b = (mix(st, k as u64) >> 3) as u8; }", c_kind="slice"),
    Arg("mut_slice_u64", "&mut [u64]", "let mut s{i}: Vec<u64> = (0..r.below(6)).map(|_| r.edgy()).collect(); pb.sent.push(s{i}.as_ptr() as usize); pb.sent.push(s{i}.len());", "&mut s{i}[..]",
        "d = mix(d, a{i}.dg()); ad.push(a{i}.as_ptr() as usize); ad.push(a{i}.len());",
        post="out = mix(out, s{i}.dg());", write="for (k, b) in a{i}.iter_mut().enumerate() { *b = mix(st, k as u64); }", c_kind="slice"),
    Arg("str", "&str", "let s{i}: String = rand_string(r); pb.sent.push(s{i}.as_ptr() as usize); pb.sent.push(s{i}.len());", "s{i}.as_str()",
        "d = mix(d, a{i}.dg()); ad.push(a{i}.as_ptr() as usize); ad.push(a{i}.len());", c_kind="slice"),
    Arg("opt_ref", "Option<&u64>", "let s{i}: Box<u64> = Box::new(r.edgy()); let o{i}: Option<&u64> = if r.chance(1, 3) { None } else { Some(&*s{i}) }; pb.sent.push(o{i}.map(|p| p as *const u64 as usize).unwrap_or(0));", "o{i}",
        "d = mix(d, a{i}.dg()); ad.push(a{i}.map(|p| p as *const u64 as usize).unwrap_or(0));", c_kind="ptr"),
    Arg("opt_u64", "Option<u64>", "let a{i}: Option<u64> = if r.chance(1, 3) { None } else { Some(r.edgy()) };", "a{i}", "d = mix(d, a{i}.dg());", c_kind="coption"),
    Arg("opt_p2", "Option<P2>", "let a{i}: Option<P2> = if r.chance(1, 3) { None } else { Some(P2::from(r.edgy())) };", "a{i}", "d = mix(d, a{i}.dg());", c_kind="coption"),
    Arg("res", "Result<u32, u8>", "let a{i}: Result<u32, u8> = if r.chance(1, 2) { Ok(r.edgy() as u32) } else { Err(r.next() as u8) };", "a{i}", "d = mix(d, a{i}.dg());", c_kind="cresult"),
    Arg("into", "impl Into<u64>", "let a{i} = IntoProbe(r.edgy(), sk.clone());", "a{i}", "let a{i}: u64 = a{i}.into(); d = mix(d, a{i}.dg());", c_kind="scalar"),
    Arg("callback", "OpaqueCallback<u64>",
        "let mut got{i}: Vec<u64> = vec![]; let stop{i} = r.below(6); let mut f{i} = |v: u64| { got{i}.push(v); got{i}.len() <= stop{i} };", "(&mut f{i}).into()",
        "let mut a{i} = a{i}; let n{i} = (pre % 7) as usize; let mut c{i} = 0u64; for k in 0..n{i} { c{i} += 1; if !a{i}.call(mix(pre, k as u64)) { break; } } d = mix(d, c{i});",
        post="out = mix(out, got{i}.dg());", c_kind="callback"),
    Arg("citer", "CIterator<u64>",
        "let seed{i} = r.next(); let n{i} = r.below(7) as u64; let mut it{i} = (0..n{i}).map(move |k| mix(seed{i}, k));", "CIterator::new(&mut it{i})",
        "let mut a{i} = a{i}; let take{i} = (pre % 9) as usize; let mut c{i} = 0u64; for _ in 0..take{i} { match a{i}.next() { Some(v) => c{i} = mix(c{i}, v), None => { c{i} = mix(c{i}, 0xE0F); break; } } } d = mix(d, c{i});",
        post="out = mix(out, it{i}.next().dg());", c_kind="citer"),
    # the implementor uses the library's feeding helper; the count it reports must be the number of items it took from its source
    Arg("callback_feed", "OpaqueCallback<u64>",
        "let mut got{i}: Vec<u64> = vec![]; let stop{i} = r.below(6); let mut f{i} = |v: u64| { got{i}.push(v); got{i}.len() <= stop{i} };", "(&mut f{i}).into()",
        "let n{i} = pre % 7; let mut pulled{i} = 0u64; let cnt{i} = ::cglue::callback::FeedCallback::feed_into((0..n{i}).map(|k| mix(pre, k)).inspect(|_| pulled{i} += 1), a{i}) as u64; "
        "if cnt{i} != pulled{i} { self.sink.model.lock().unwrap().push(format!(\"feed_into reported {} items offered to the callback, {} were taken from the source\", cnt{i}, pulled{i})); } d = mix(d, cnt{i});",
        post="out = mix(out, got{i}.dg());", c_kind="callback"),
    # the implementor hands the items over with Extend: the caller's "stop" must still end the delivery
    Arg("callback_extend", "OpaqueCallback<u64>",
        "let mut got{i}: Vec<u64> = vec![]; let stop{i} = r.below(6); let mut after{i} = 0u32; let mut done{i} = false; "
        "let mut f{i} = |v: u64| { if done{i} { after{i} += 1; } got{i}.push(v); let c = got{i}.len() <= stop{i}; if !c { done{i} = true; } c };", "(&mut f{i}).into()",
        "let mut a{i} = a{i}; let n{i} = pre % 7; ::core::iter::Extend::extend(&mut a{i}, (0..n{i}).map(|k| mix(pre, k))); d = mix(d, n{i});",
        post="if after{i} > 0 { sk.model.lock().unwrap().push(format!(\"the callback was invoked {} more time(s) after it had answered stop\", after{i})); } out = mix(out, got{i}.dg());", c_kind="callback"),
    # a source that is not fused (None in the middle), drained in rounds: what the implementor sees must be what the source yielded
    Arg("citer_rounds", "CIterator<u64>",
        "let seed{i} = r.next(); let srclog{i}: ::std::cell::RefCell<Vec<Option<u64>>> = Default::default(); let mut k{i} = 0u64; "
        "let mut it{i} = ::std::iter::from_fn(|| { k{i} += 1; let v = if k{i} > 9 || mix(seed{i}, k{i}) % 3 == 0 { None } else { Some(mix(seed{i}, k{i} + 100)) }; srclog{i}.borrow_mut().push(v); v }); "
        "let seen0{i} = sk.seen.lock().unwrap().len();", "CIterator::new(&mut it{i})",
        "let mut a{i} = a{i}; for _ in 0..6 { let v = a{i}.next(); self.sink.seen.lock().unwrap().push(v); d = mix(d, v.dg()); }",
        post="{ let seen: Vec<Option<u64>> = sk.seen.lock().unwrap()[seen0{i}..].to_vec(); let src = srclog{i}.borrow().clone(); "
             "if seen != src { sk.model.lock().unwrap().push(format!(\"iterator argument: the source yielded {:?}, the implementor saw {:?}\", src, seen)); } out = mix(out, src.len() as u64); }",
        c_kind="citer"),
    Arg("ptr_const", "*const u8", "let s{i}: Box<u8> = Box::new(r.next() as u8); pb.sent.push(&*s{i} as *const u8 as usize);", "&*s{i} as *const u8",
        "d = mix(d, unsafe { *a{i} } as u64); ad.push(a{i} as usize);", c_kind="ptr"),
    Arg("ptr_mut", "*mut u64", "let mut s{i}: Box<u64> = Box::new(r.edgy()); pb.sent.push(&*s{i} as *const u64 as usize);", "&mut *s{i} as *mut u64",
        "d = mix(d, unsafe { *a{i} }); ad.push(a{i} as usize);", post="out = mix(out, (*s{i}).dg());", write="unsafe { *a{i} = mix(st, 77); }", c_kind="ptr"),
]
ARG = {a.key: a for a in ARGS}
# shapes whose callee code needs the pre-state before the event is logged
NEEDS_PRE = {"callback", "citer", "callback_feed", "callback_extend"}


class Ret:
    def __init__(self, key, ty, expr, dg, needs_mut=False, probe="", after="", int_result=False, only_ref_recv=False, c_kind="scalar"):
        self.key, self.ty, self.expr, self.dg = key, ty, expr, dg
        self.needs_mut = needs_mut      # requires a &mut receiver
        self.probe = probe              # caller-side code recording the returned address
        self.after = after              # caller-side code run on the returned value (e.g. writes)
        self.int_result = int_result
        self.c_kind = c_kind


_IDX = "let n = self.cuts.len() - 1; let i = (st % n as u64) as usize; let j = i + ((st >> 8) % ((n - i) as u64 + 1)) as usize;"
RETS = [
    Ret("unit", "", "", "0u64"),
    Ret("u8", "u8", "st as u8", "ret.dg()"),
    Ret("u32", "u32", "st as u32", "ret.dg()"),
    Ret("u64", "u64", "st", "ret.dg()"),
    Ret("i64", "i64", "st as i64", "ret.dg()"),
    Ret("usize", "usize", "st as usize", "ret.dg()"),
    Ret("bool", "bool", "st & 1 == 1", "ret.dg()"),
    Ret("f64", "f64", "f64::from_bits(st)", "ret.dg()"),
    Ret("p2", "P2", "P2::from(st)", "ret.dg()", c_kind="struct"),
    Ret("ref_u64", "&u64", "&self.words[(st % 8) as usize]", "ret.dg()", probe="pb.ret = Some((1, ret as *const u64 as usize));", c_kind="ptr"),
    Ret("str", "&str", "{ %s &self.text[self.cuts[i]..self.cuts[j]] }" % _IDX, "mix(ret.dg(), ret.len() as u64)", probe="pb.ret = Some((2, ret.as_ptr() as usize));", c_kind="slice"),
    Ret("slice_u8", "&[u8]", "{ let i = (st % 48) as usize; let j = i + ((st >> 8) % (49 - i as u64)) as usize; &self.buf[i..j] }", "mix(ret.dg(), ret.len() as u64)",
        probe="pb.ret = Some((0, ret.as_ptr() as usize));", c_kind="slice"),
    Ret("slice_u64", "&[u64]", "{ let i = (st % 8) as usize; let j = i + ((st >> 8) % (9 - i as u64)) as usize; &self.words[i..j] }", "mix(ret.dg(), ret.len() as u64)",
        probe="pb.ret = Some((1, ret.as_ptr() as usize));", c_kind="slice"),
    Ret("mut_slice_u8", "&mut [u8]", "{ let i = (st % 48) as usize; let j = i + ((st >> 8) % (49 - i as u64)) as usize; &mut self.buf[i..j] }", "mix(ret.dg(), ret.len() as u64)",
        needs_mut=True, probe="pb.ret = Some((0, ret.as_ptr() as usize));", after="for (k, b) in ret.iter_mut().enumerate() { *b = b.wrapping_add(k as u8 + 1); }", c_kind="slice"),
    Ret("opt_u64", "Option<u64>", "if st & 1 == 0 { None } else { Some(st) }", "ret.dg()", c_kind="coption"),
    Ret("opt_ref", "Option<&u64>", "if st & 1 == 0 { None } else { Some(&self.words[(st % 8) as usize]) }", "ret.dg()",
        probe="if let Some(p) = ret { pb.ret = Some((1, p as *const u64 as usize)); }", c_kind="ptr"),
    Ret("res", "Result<u64, u8>", "if st & 3 == 0 { Err(st as u8) } else { Ok(st) }", "ret.dg()", c_kind="cresult"),
    Ret("res_p2", "Result<P2, P2>", "if st & 3 == 0 { Err(P2::from(st)) } else { Ok(P2::from(!st)) }", "ret.dg()", c_kind="cresult"),
]
RET = {x.key: x for x in RETS}

# int-result returns (used under #[int_result])
# OS error codes: mostly arbitrary, one call in four a boundary value (the generic code 0xffff and its neighbours, extremes)
_CODE = ("{ let c = if st & 0x60 == 0 { [0xffffi32, 0xfffe, 0x10000, -1, 1, i32::MAX, i32::MIN, -0xffff][((st >> 7) & 7) as usize] } else { (st >> 7) as i32 }; "
         "if c == 0 { 1 } else { c } }")
INT_RETS = [
    Ret("ir_u64_io", "Result<u64, std::io::Error>", "if st & 1 == 0 { Err(std::io::Error::from_raw_os_error(%s)) } else { Ok(st) }" % _CODE, "ret.dg()", int_result=True, c_kind="int"),
    Ret("ir_unit_io", "Result<(), std::io::Error>", "if st & 1 == 0 { Err(std::io::Error::from_raw_os_error(%s)) } else { Ok(()) }" % _CODE, "ret.dg()", int_result=True, c_kind="int"),
    Ret("ir_p2_unit", "Result<P2, ()>", "if st & 1 == 0 { Err(()) } else { Ok(P2::from(st)) }", "ret.dg()", int_result=True, c_kind="int"),
    Ret("ir_unit_fmt", "Result<(), std::fmt::Error>", "if st & 1 == 0 { Err(std::fmt::Error) } else { Ok(()) }", "ret.dg()", int_result=True, c_kind="int"),
]
INT_RET = {x.key: x for x in INT_RETS}
INT_RET["ir_u64_io_alias"] = Ret("ir_u64_io_alias", "AliasRes<u64, std::io::Error>", INT_RET["ir_u64_io"].expr, "ret.dg()", int_result=True, c_kind="int")

INT_RET["ir_u64_one"] = Ret("ir_u64_one", "IoRes<u64>", INT_RET["ir_u64_io"].expr, "ret.dg()", int_result=True, c_kind="int")
INT_RET["ir_unit_one"] = Ret("ir_unit_one", "IoRes<()>", INT_RET["ir_unit_io"].expr, "ret.dg()", int_result=True, c_kind="int")

_NONOS = 'std::io::Error::new(std::io::ErrorKind::Other, "non-os")'
INT_RET["plain_io"] = Ret("plain_io", "Result<u64, std::io::Error>", "match st & 3 { 0 => Err(%s), 1 => Err(std::io::Error::from_raw_os_error(%s)), _ => Ok(st) }" % (_NONOS, _CODE), "ret.dg()", c_kind="cresult")
INT_RET["plain_io_unit"] = Ret("plain_io_unit", "Result<(), std::io::Error>", "match st & 3 { 0 => Err(%s), 1 => Err(std::io::Error::from_raw_os_error(%s)), _ => Ok(()) }" % (_NONOS, _CODE), "ret.dg()", c_kind="cresult")

# An integer-coded result is lossy for errors without an OS code: through the object such an error can only come back as an OS
# error.  Seeing the rich error unchanged on the object side means the vtable entry does not use the integer convention at all.
_LOSSY_AFTER = ('if let Err(e) = &ret { if e.raw_os_error().is_none() && sk.opaque.load(::std::sync::atomic::Ordering::SeqCst) { '
                'sk.model.lock().unwrap().push("a method marked for integer results returned an error without OS code unchanged through the object: its vtable entry does not use the integer convention".to_string()); } }')
_LOSSY_DG = "match &ret { Ok(v) => mix(1, v.dg()), Err(e) => mix(2, e.raw_os_error().unwrap_or(0xffff) as u32 as u64) }"
INT_RET["ir_u64_io_lossy"] = Ret("ir_u64_io_lossy", "Result<u64, std::io::Error>", INT_RET["plain_io"].expr, _LOSSY_DG, after=_LOSSY_AFTER, int_result=True, c_kind="int")
INT_RET["ir_u64_one_lossy"] = Ret("ir_u64_one_lossy", "IoRes<u64>", INT_RET["plain_io"].expr, _LOSSY_DG, after=_LOSSY_AFTER, int_result=True, c_kind="int")
INT_RET["ir_u64_alias_lossy"] = Ret("ir_u64_alias_lossy", "AliasRes<u64, std::io::Error>", INT_RET["plain_io"].expr, _LOSSY_DG, after=_LOSSY_AFTER, int_result=True, c_kind="int")
