#!/usr/bin/env python3
"""Generator of the glue corpus: Rust crates that use the *real* cglue macros on traits drawn
from the bounded grammar in shapes.py, with recording implementors and differential runners.
usage: gen.py <outdir> <tier> <seed>"""
import json
import os
import random
import sys

sys.path.insert(0, os.path.dirname(os.path.abspath(__file__)))
from shapes import ARG, ARGS, RET, RETS, INT_RET, INT_RETS, RECEIVERS, NEEDS_PRE  # noqa: E402


class Method:
    def __init__(self, name, recv, args=(), ret="unit", attrs=(), abi="", unsafe=False, default_body=None, int_ret=None, excluded=False, where="", override=False):
        self.name, self.recv, self.args, self.ret = name, recv, list(args), ret
        self.attrs, self.abi, self.unsafe, self.default_body = list(attrs), abi, unsafe, default_body
        self.int_ret = int_ret      # key into INT_RET (overrides ret)
        self.excluded = excluded    # skip_func / vtbl_only / custom_impl: not part of the oracle
        self.where = where          # e.g. "where Self: Sized"
        self.override = override    # the implementor overrides the default body

    @property
    def R(self):
        return INT_RET[self.int_ret] if self.int_ret else RET[self.ret]

    def sig(self):
        rc = RECEIVERS[self.recv]
        r = self.R
        recv_sig = rc["sig"]
        rty = r.ty
        gen = ""
        # cglue cannot elide the return lifetime when another argument carries a lifetime
        # (the container is not `self` in the C function): such methods name it explicitly,
        # exactly as the repository's own tests do (wslice_4).
        lifetimed_args = any(("&" in ARG[a].ty or "CIterator" in ARG[a].ty or "OpaqueCallback" in ARG[a].ty) for a in self.args)
        if "&" in rty and lifetimed_args and not rc["own"]:
            gen = "<'a>"
            recv_sig = recv_sig.replace("&self", "&'a self").replace("&mut self", "&'a mut self").replace("Pin<&Self>", "Pin<&'a Self>").replace("Pin<&mut Self>", "Pin<&'a mut Self>")
            rty = rty.replace("&", "&'a ")
        params = [recv_sig] + ["a%d: %s" % (i, ARG[a].ty) for i, a in enumerate(self.args)]
        ret = (" -> " + rty) if rty else ""
        pre = ("unsafe " if self.unsafe else "") + (('extern "%s" ' % self.abi) if self.abi else "")
        return "%sfn %s%s(%s)%s%s" % (pre, self.name, gen, ", ".join(params), ret, (" " + self.where) if self.where else "")


class Trait:
    def __init__(self, name, methods, int_result=None, supers="", generics="", gen_use="", impl_generics="", doc=""):
        self.name, self.methods = name, methods
        self.int_result = int_result     # None | "" (plain) | "Alias"
        self.supers, self.generics, self.gen_use, self.impl_generics = supers, generics, gen_use, impl_generics
        self.doc = doc

    @property
    def has_mut(self):
        return any(RECEIVERS[m.recv]["mut"] and not RECEIVERS[m.recv]["own"] for m in self.live)

    @property
    def has_own(self):
        return any(RECEIVERS[m.recv]["own"] for m in self.live)

    @property
    def live(self):
        return [m for m in self.methods if not m.excluded]

    @property
    def borrowing(self):
        return [m for m in self.live if not RECEIVERS[m.recv]["own"]]

    @property
    def consuming(self):
        return [m for m in self.live if RECEIVERS[m.recv]["own"]]


# ----------------------------------------------------------------------------------------------
def emit_trait(t):
    out = []
    out.append("#[cglue_trait]")
    if t.int_result is not None:
        out.append("#[int_result%s]" % ("(%s)" % t.int_result if t.int_result else ""))
    sup = (": " + t.supers) if t.supers else ""
    out.append("pub trait %s%s%s {" % (t.name, t.generics, sup))
    for m in t.methods:
        for a in m.attrs:
            out.append("    #[%s]" % a)
        if m.default_body is not None:
            out.append("    %s { %s }" % (m.sig(), m.default_body))
        else:
            out.append("    %s;" % m.sig())
    out.append("}")
    return "\n".join(out)


def emit_impl(t, ty="$T"):
    """impl of trait t for the recording implementor (inside the impl_all! macro)."""
    out = ["impl %s%s for %s {" % (t.name, t.gen_use, ty)]
    for m in t.methods:
        if m.default_body is not None and not m.override:
            continue
        out.append("    #[allow(unused_mut, unused_variables, unused_assignments)]")
        out.append("    %s {" % m.sig())
        out.append("        let mut d = 0u64; let mut ad: Vec<usize> = vec![];")
        if any(a in NEEDS_PRE for a in m.args):
            out.append("        let pre = self.state();")
        for i, a in enumerate(m.args):
            out.append("        " + ARG[a].fmt(ARG[a].callee, i))
        out.append('        let st = self.event("%s::%s", d, ad);' % (t.name, m.name))
        for i, a in enumerate(m.args):
            if ARG[a].write:
                out.append("        " + ARG[a].fmt(ARG[a].write, i))
        r = m.R
        expr = r.expr
        if RECEIVERS[m.recv]["pin"] and "self." in expr:
            if RECEIVERS[m.recv]["mut"]:
                out.append("        let this = self.get_mut();")
            else:
                out.append("        let this = self.get_ref();")
            expr = expr.replace("self.", "this.")
        if expr:
            out.append("        " + expr)
        out.append("    }")
    out.append("}")
    return "\n".join(out)


def emit_step(t):
    """generic step function: the *same* code drives the opaque object and the direct value"""
    bound = "%s%s + Unpin" % (t.name, t.gen_use)
    out = []
    out.append("#[allow(unused_mut, unused_variables, unused_assignments, clippy::all)]")
    out.append("pub fn step_%s<X: %s>(x: &mut X, m: usize, r: &mut Rng, pb: &mut Probe, sk: &Arc<Sink>) -> u64 {" % (t.name, bound))
    out.append("    match m {")
    for k, m in enumerate(t.borrowing):
        out.append("        %d => {" % k)
        for i, a in enumerate(m.args):
            out.append("            " + ARG[a].fmt(ARG[a].setup, i))
        rc = RECEIVERS[m.recv]
        if rc["pin"]:
            recv = "::core::pin::Pin::new(&mut *x)" if rc["mut"] else "::core::pin::Pin::new(&*x)"
            call = "%s::%s(%s%s)" % ("X", m.name, recv, "".join(", " + ARG[a].fmt(ARG[a].pas, i) for i, a in enumerate(m.args)))
            call = "<X as %s%s>::%s(%s%s)" % (t.name, t.gen_use, m.name, recv, "".join(", " + ARG[a].fmt(ARG[a].pas, i) for i, a in enumerate(m.args)))
        else:
            call = "x.%s(%s)" % (m.name, ", ".join(ARG[a].fmt(ARG[a].pas, i) for i, a in enumerate(m.args)))
        if m.unsafe:
            call = "unsafe { %s }" % call
        r_ = m.R
        out.append("            let mut out;")
        out.append("            {")
        out.append("                let %sret = %s;" % ("mut " if r_.after else "", call))
        if r_.probe:
            out.append("                " + r_.probe)
        if r_.after:
            out.append("                " + r_.after)
        out.append("                out = %s;" % r_.dg)
        out.append("            }")
        for i, a in enumerate(m.args):
            if ARG[a].post:
                out.append("            " + ARG[a].fmt(ARG[a].post, i))
        out.append("            out")
        out.append("        }")
    out.append("        _ => 0,")
    out.append("    }")
    out.append("}")
    if t.consuming:
        out.append("#[allow(unused_mut, unused_variables, unused_assignments, clippy::all)]")
        out.append("pub fn consume_%s<X: %s%s>(x: X, m: usize, r: &mut Rng, pb: &mut Probe, sk: &Arc<Sink>) -> u64 {" % (t.name, t.name, t.gen_use))
        out.append("    match m {")
        for k, m in enumerate(t.consuming):
            out.append("        %d => {" % k)
            for i, a in enumerate(m.args):
                out.append("            " + ARG[a].fmt(ARG[a].setup, i))
            call = "x.%s(%s)" % (m.name, ", ".join(ARG[a].fmt(ARG[a].pas, i) for i, a in enumerate(m.args)))
            out.append("            let mut out;")
            out.append("            { let ret = %s; out = %s; }" % (call, m.R.dg))
            for i, a in enumerate(m.args):
                if ARG[a].post:
                    out.append("            " + ARG[a].fmt(ARG[a].post, i))
            out.append("            out")
            out.append("        }")
        out.append("        _ => { drop(x); 0 }")
        out.append("    }")
        out.append("}")
    return "\n".join(out)


CONTAINERS = ["box", "ctxbox", "mut", "ref", "arcsome"]


def containers_for(t):
    if t.has_own:
        return ["box", "ctxbox"]
    if t.has_mut:
        return ["box", "ctxbox", "mut", "ctxmut"]
    return ["box", "ctxbox", "mut", "ref", "ctxref", "arcsome"]


def emit_runner(t):
    """one function per trait: runs `nhist` histories on every container kind"""
    nb = len(t.borrowing)
    nc = len(t.consuming)
    name = t.name
    out = []
    out.append("#[allow(unused_mut, unused_variables, unused_assignments)]")
    out.append("pub fn run_%s(seed: u64, nhist: u64, maxlen: usize, rep: &mut Report) {" % name)
    out.append("    let mut rng = Rng::new(seed ^ 0x%x);" % (abs(hash_name(name)) & 0xffffffff))
    for kind in containers_for(t):
        out.append("    for h in 0..nhist {")
        out.append("        let mark = tracked::mark();")
        out.append("        let (so, sr) = (Sink::new(), Sink::new()); so.opaque.store(true, ::std::sync::atomic::Ordering::SeqCst);")
        out.append("        let rid = rng.next() | 1;")
        out.append("        let mut reference = RecB::root(rid, &sr);")
        out.append("        let ctx_arc = std::sync::Arc::new(CtxPayload::new());")
        out.append("        let len = 1 + rng.below(maxlen);")
        out.append("        let mut trace: Vec<usize> = vec![];")
        out.append("        let mut bad: Option<(String, String)> = None;")
        owner_alive = "false"
        if kind == "box":
            out.append("        let inner = RecB::root(rid, &so);")
            out.append("        let mut obj = trait_obj!(inner as %s);" % name)
        elif kind == "ctxbox":
            out.append("        let inner = RecB::root(rid, &so);")
            out.append("        let mut obj = trait_obj!((inner, CArc::<CtxPayload>::from(ctx_arc.clone())) as %s);" % name)
        elif kind == "mut":
            out.append("        let mut inner = RecB::root(rid, &so);")
            out.append("        let mut obj = trait_obj!(&mut inner as %s);" % name)
            owner_alive = "true"
        elif kind == "ctxmut":
            out.append("        let mut inner = RecB::root(rid, &so);")
            out.append("        let mut obj = trait_obj!((&mut inner, CArc::<CtxPayload>::from(ctx_arc.clone())) as %s);" % name)
            owner_alive = "true"
        elif kind == "ref":
            out.append("        let inner = RecB::root(rid, &so);")
            out.append("        let mut obj = trait_obj!(&inner as %s);" % name)
            owner_alive = "true"
        elif kind == "ctxref":
            out.append("        let inner = RecB::root(rid, &so);")
            out.append("        let mut obj = trait_obj!((&inner, CArc::<CtxPayload>::from(ctx_arc.clone())) as %s);" % name)
            owner_alive = "true"
        elif kind == "arcsome":
            out.append("        let inner = RecB::root(rid, &so);")
            out.append("        let mut obj = trait_obj!(CArcSome::from(inner) as %s);" % name)
        out.append("        for step in 0..len {")
        out.append("            let m = rng.below(%d);" % max(nb, 1))
        out.append("            trace.push(m);")
        out.append("            let mut ra = rng.fork(); let mut rb = ra.clone();")
        out.append("            let (mut po, mut pr) = (Probe::default(), Probe::default());")
        out.append("            let n0 = so.nlog();")
        out.append("            let d1 = step_%s(&mut obj, m, &mut ra, &mut po, &so);" % name)
        out.append("            let d2 = step_%s(&mut reference, m, &mut rb, &mut pr, &sr);" % name)
        out.append("            rep.add(\"calls\", 1);")
        out.append("            if d1 != d2 { bad = Some((\"result-differs\".into(), format!(\"method #{} returned/left digest {:#x} through the object, {:#x} directly\", m, d1, d2))); }")
        out.append("            if bad.is_none() { bad = diff_sinks(&so, &sr); }")
        out.append("            if bad.is_none() { bad = addr_check(&so, &sr, &po, &pr, n0); }")
        out.append("            if bad.is_none() && so.nlog() != n0 + %s { }" % "1")
        out.append("            if bad.is_some() { break; }")
        out.append("        }")
        if nc and kind in ("box", "ctxbox"):
            out.append("        if bad.is_none() && !cfg!(miri) && rng.chance(2, 3) {")
            out.append("            let m = rng.below(%d);" % nc)
            out.append("            trace.push(1000 + m);")
            out.append("            let mut ra = rng.fork(); let mut rb = ra.clone();")
            out.append("            let (mut po, mut pr) = (Probe::default(), Probe::default());")
            out.append("            let d1 = consume_%s(obj, m, &mut ra, &mut po, &so);" % name)
            out.append("            let d2 = consume_%s(reference, m, &mut rb, &mut pr, &sr);" % name)
            out.append("            rep.add(\"calls\", 1); rep.add(\"consuming_calls\", 1);")
            out.append("            if d1 != d2 { bad = Some((\"result-differs\".into(), format!(\"consuming method #{} digest {:#x} vs {:#x}\", m, d1, d2))); }")
            out.append("            if bad.is_none() { bad = diff_sinks(&so, &sr); }")
            out.append("        } else { drop(obj); drop(reference); }")
        else:
            out.append("        drop(obj); drop(reference);")
        if owner_alive == "true":
            out.append("        if bad.is_none() { bad = ownership(&so, &[rid]).map(|(s, d)| (format!(\"borrowed-{}\", s), d)); }")
            out.append("        drop(inner);")
        out.append("        if bad.is_none() { bad = ownership(&so, &[]); }")
        out.append("        if bad.is_none() { bad = ownership(&sr, &[]).map(|(s, d)| (format!(\"harness-{}\", s), d)); }")
        out.append("        if bad.is_none() && std::sync::Arc::strong_count(&ctx_arc) != 1 { bad = Some((\"context-count\".into(), format!(\"context strong count {} after everything was dropped\", std::sync::Arc::strong_count(&ctx_arc)))); }")
        out.append("        if let Some((sig, d)) = bad {")
        out.append("            rep.violation(&format!(\"GLUE:{}\", sig), &format!(\"trait %s container %s history {:?}: {}\", trace, d), &format!(\"%s/%s/{:?}\", trace));" % (name, kind, name, kind))
        out.append("        } else { rep.add(\"histories\", 1); rep.add(\"histories_%s\", 1); }" % kind)
        out.append("        let _ = (mark, h);")
        out.append("    }")
    out.append("    rep.add(\"traits_run\", 1);")
    out.append("}")
    return "\n".join(out)


def hash_name(s):
    h = 0
    for c in s:
        h = (h * 131 + ord(c)) & 0xffffffffffff
    return h


# ----------------------------------------------------------------------------------------------
# the corpus
def single_method_traits(rng, tier):
    """pairwise: every argument shape and every return shape appears with receivers cycling"""
    ts = []
    recvs = ["ref", "mut", "pinref", "pinmut"]
    k = 0
    for a in ARGS:
        for rv in (recvs if tier == "thorough" else [recvs[k % 4]]):
            ts.append(Trait("Sa%d%s" % (k, rv.capitalize()), [Method("m", rv, [a.key], "u64")]))
        k += 1
    k = 0
    for r_ in RETS:
        for rv in (recvs if tier == "thorough" else [recvs[k % 4]]):
            if r_.needs_mut and not RECEIVERS[rv]["mut"]:
                rv = "mut" if not rv.startswith("pin") else "pinmut"
            nm = "Sr%d%s" % (k, rv.capitalize())
            if any(t.name == nm for t in ts):
                continue
            ts.append(Trait(nm, [Method("m", rv, ["u64"], r_.key)]))
        k += 1
    return ts


def multi_method_traits(rng, tier):
    ts = []
    # identical signatures, declaration order != alphabetical order: a slot mix-up type-checks
    names = ["zeta", "alpha", "mid", "beta", "omega", "gamma"]
    ts.append(Trait("Same6", [Method(n, "mut", ["u64"], "u64") for n in names]))
    ts.append(Trait("Same3Ref", [Method(n, "ref", ["u32", "u32"], "u32") for n in ["c3", "a1", "b2"]]))
    ts.append(Trait("SameStr", [Method(n, "mut", ["str", "str"], "str") for n in ["second", "first"]]))
    # argument order: two arguments of the same type
    ts.append(Trait("ArgOrder", [
        Method("two_u64", "ref", ["u64", "u64"], "u64"),
        Method("two_slices", "mut", ["slice_u8", "slice_u8"], "u64"),
        Method("four", "mut", ["u8", "u64", "u8", "u64"], "u64"),
        Method("mixed", "ref", ["str", "opt_u64", "slice_u64", "p2"], "p2"),
    ]))
    ts.append(Trait("Kitchen", [
        Method("k_read", "ref", ["slice_u8"], "slice_u8"),
        Method("k_write", "mut", ["mut_slice_u8", "u8"], "unit"),
        Method("k_name", "ref", [], "str"),
        Method("k_opt", "mut", ["opt_u64", "opt_ref"], "opt_u64"),
        Method("k_res", "ref", ["res"], "res"),
        Method("k_cb", "mut", ["callback"], "usize"),
        Method("k_it", "mut", ["citer"], "u64"),
        Method("k_into", "ref", ["into"], "u64"),
        Method("k_pin", "pinmut", ["u32"], "u32"),
        Method("k_buf", "mut", ["u64"], "mut_slice_u8"),
    ]))
    ts.append(Trait("Attrs", [
        Method("ext_c", "ref", ["u32"], "u32", abi="C"),
        Method("uns", "mut", ["u64"], "u64", unsafe=True),
        Method("plain", "mut", ["u64"], "u64"),
        Method("with_default", "mut", ["u64"], "u64", default_body="self.plain(a0).wrapping_add(1)"),
        Method("overridden_default", "mut", ["u64"], "u64", default_body="a0 ^ 0x5a5a", override=True),
        Method("sized_default", "ref", ["u32"], "u32", default_body="a0.wrapping_mul(3)", where="where Self: Sized"),
        Method("sized_overridden", "mut", ["u32"], "u32", default_body="a0.wrapping_mul(5)", where="where Self: Sized", override=True),
    ]))
    ts.append(Trait("Consumer", [
        Method("peek", "ref", ["u64"], "u64"),
        Method("poke", "mut", ["u64"], "u64"),
        Method("finish", "own", ["u64"], "u64"),
        Method("finish_p2", "own", [], "p2"),
    ]))
    ts.append(Trait("OnlyConsume", [Method("eat", "own", ["str"], "u64")]))
    ts.append(Trait("SendSuper", [Method("ss", "ref", ["u64"], "u64")], supers="Send"))
    return ts


def int_result_traits(rng, tier):
    ts = []
    ts.append(Trait("IrAll", [
        Method("ir_a", "ref", ["u64"], None, int_ret="ir_u64_io"),
        Method("ir_b", "mut", ["u64"], None, int_ret="ir_unit_io"),
        Method("ir_c", "ref", [], None, int_ret="ir_p2_unit"),
        Method("ir_d", "mut", ["str"], None, int_ret="ir_unit_fmt"),
        Method("ir_plain", "ref", ["u64"], "res", attrs=["no_int_result"]),
        Method("ir_not_result", "ref", ["u64"], "u64"),
    ], int_result=""))
    ts.append(Trait("IrMethod", [
        Method("im_yes", "mut", ["u64"], None, int_ret="ir_u64_io", attrs=["int_result"]),
        Method("im_no", "mut", ["u64"], "res"),
    ]))
    # an unmarked method after a marked one keeps its full error value (non-OS io errors included)
    ts.append(Trait("IrOrder", [
        Method("io_before", "ref", ["u64"], None, int_ret="plain_io"),
        Method("io_marked", "ref", ["u64"], None, int_ret="ir_u64_io", attrs=["int_result"]),
        Method("io_after", "ref", ["u64"], None, int_ret="plain_io"),
        Method("io_after_unit", "mut", ["u64"], None, int_ret="plain_io_unit"),
    ]))
    ts.append(Trait("IrAlias", [
        Method("ia_yes", "ref", ["u32"], None, int_ret="ir_u64_io_alias"),
        Method("ia_no", "ref", ["u32"], "res", attrs=["no_int_result"]),
    ], int_result="AliasRes"))
    # under #[int_result(Alias)] only returns spelled with the alias are integer-coded: a plain Result keeps its full error value
    ts.append(Trait("IrAliasPlain", [
        Method("iap_alias", "ref", ["u64"], None, int_ret="ir_u64_io_alias"),
        Method("iap_plain", "ref", ["u64"], None, int_ret="plain_io"),
        Method("iap_plain_unit", "mut", ["u64"], None, int_ret="plain_io_unit"),
    ], int_result="AliasRes"))
    # a one-parameter alias (the form the crate documentation shows), and errors that cannot survive the integer convention
    ts.append(Trait("IrOneParam", [
        Method("i1_val", "ref", ["u64"], None, int_ret="ir_u64_one"),
        Method("i1_unit", "mut", ["u64"], None, int_ret="ir_unit_one"),
        Method("i1_lossy", "ref", ["u64"], None, int_ret="ir_u64_one_lossy"),
    ], int_result="IoRes"))
    ts.append(Trait("IrLossy", [
        Method("il_trait_level", "ref", ["u64"], None, int_ret="ir_u64_io_lossy"),
        Method("il_plain", "ref", ["u64"], "res", attrs=["no_int_result"]),
    ], int_result=""))
    ts.append(Trait("IrLossyMethod", [
        Method("ilm_before", "ref", ["u64"], "u64"),
        Method("ilm_marked", "mut", ["u64"], None, int_ret="ir_u64_io_lossy", attrs=["int_result"]),
        Method("ilm_alias", "ref", ["u64"], None, int_ret="ir_u64_alias_lossy", attrs=["int_result(AliasRes)"]),
    ]))
    ts.append(Trait("IrConsume", [
        Method("ic_peek", "ref", [], "u64"),
        Method("ic_fin", "own", ["u64"], None, int_ret="ir_u64_io"),
    ], int_result=""))
    return ts


def corpus(tier, seed):
    rng = random.Random(seed)
    return single_method_traits(rng, tier) + multi_method_traits(rng, tier) + int_result_traits(rng, tier)


HEADER = """// GENERATED by /verif/glue/gen.py -- do not edit
#![allow(dead_code, unused_imports, non_snake_case, clippy::all, improper_ctypes_definitions, mismatched_lifetime_syntaxes)]
use cglue::prelude::v1::*;
use cglue::*;
use gluert::*;
use std::sync::Arc;

pub type AliasRes<T, E> = Result<T, E>;
pub type IoRes<T> = Result<T, std::io::Error>;
"""


def main():
    outdir, tier, seed = sys.argv[1], sys.argv[2], int(sys.argv[3])
    ts = corpus(tier, seed)
    os.makedirs(os.path.join(outdir, "src"), exist_ok=True)
    nshards = 8
    shards = [[] for _ in range(nshards)]
    for i, t in enumerate(ts):
        shards[i % nshards].append(t)
    os.makedirs(os.path.join(outdir, "src", "bin"), exist_ok=True)
    for si, sh in enumerate(shards):
        body = [HEADER, "#[path = \"../common.rs\"]\nmod common;", "use common::*;"]
        for t in sh:
            body.append(emit_trait(t))
        body.append("macro_rules! impl_all_%d { ($T:ident) => {" % si)
        for t in sh:
            body.append(emit_impl(t))
        body.append("} }")
        body.append("impl_all_%d!(RecB);" % si)
        for t in sh:
            body.append(emit_step(t))
            body.append(emit_runner(t))
        body.append("pub fn run_all(seed: u64, nhist: u64, maxlen: usize, only: &str, rep: &mut Report) {")
        for t in sh:
            body.append("    if only.is_empty() || \"%s\".starts_with(only) { run_%s(seed, nhist, maxlen, rep); }" % (t.name, t.name))
        body.append("}")
        body.append(MAIN)
        with open(os.path.join(outdir, "src", "bin", "shard%d.rs" % si), "w") as f:
            f.write("\n".join(body) + "\n")
    with open(os.path.join(outdir, "src", "common.rs"), "w") as f:
        f.write(COMMON)
    with open(os.path.join(outdir, "Cargo.toml"), "w") as f:
        f.write(CARGO)
    meta = dict(tier=tier, seed=seed, shards=nshards, shard_traits=[[t.name for t in sh] for sh in shards], traits=[dict(name=t.name, methods=[dict(name=m.name, recv=m.recv, args=m.args, ret=(m.int_ret or m.ret)) for m in t.methods],
                                                   containers=containers_for(t)) for t in ts])
    with open(os.path.join(outdir, "corpus.json"), "w") as f:
        json.dump(meta, f, indent=1)
    print("generated %d traits, %d methods" % (len(ts), sum(len(t.methods) for t in ts)))


COMMON = """// GENERATED -- shared items of the corpus
#![allow(dead_code)]
use gluert::*;
use std::sync::atomic::{AtomicU64, Ordering};

/// base recording implementor (newtype so that groups can use several distinct types)
pub struct RecB(pub Rec);
impl RecB {
    pub fn root(id: u64, sink: &std::sync::Arc<Sink>) -> RecB { RecB(Rec::root(id, sink)) }
}
impl std::ops::Deref for RecB { type Target = Rec; fn deref(&self) -> &Rec { &self.0 } }
impl std::ops::DerefMut for RecB { fn deref_mut(&mut self) -> &mut Rec { &mut self.0 } }
impl Clone for RecB { fn clone(&self) -> Self { RecB(self.0.derive()) } }

/// payload of the reference-counted context
pub struct CtxPayload { pub magic: u64 }
pub static CTX_DROPS: AtomicU64 = AtomicU64::new(0);
impl CtxPayload { pub fn new() -> Self { CtxPayload { magic: 0xC0FFEE } } }
impl Drop for CtxPayload { fn drop(&mut self) { CTX_DROPS.fetch_add(1, Ordering::SeqCst); } }
"""

MAIN = """
#[cfg(all(feature = "track-alloc", not(miri)))]
#[global_allocator]
static GLOBAL: vmon::alloc::TrackingAlloc = vmon::alloc::TrackingAlloc;

// ---- integer-coded results as a foreign caller sees them: the vtable entry is called directly with a pre-loaded output slot ----
#[cglue_trait]
#[int_result]
pub trait IrSlot {
    fn rd(&self, ch: u32) -> Result<u64, std::io::Error>;
    fn rd_pod(&mut self, ch: u32) -> Result<P2, std::io::Error>;
    #[no_int_result]
    fn plain(&self, ch: u32) -> u32;
}
pub struct IrSlotImp;
impl IrSlot for IrSlotImp {
    fn rd(&self, ch: u32) -> Result<u64, std::io::Error> { if ch < 4 { Ok(1000 + ch as u64) } else { Err(std::io::Error::from_raw_os_error(ch as i32)) } }
    fn rd_pod(&mut self, ch: u32) -> Result<P2, std::io::Error> { if ch < 4 { Ok(P2 { a: ch as u8, b: 77 + ch, c: 1000 + ch as u64, d: -3 }) } else { Err(std::io::Error::from_raw_os_error(ch as i32)) } }
    fn plain(&self, ch: u32) -> u32 { ch }
}
pub fn int_result_slot_checks(rep: &mut gluert::Report) {
    use cglue::trait_group::GetContainer;
    use std::mem::MaybeUninit;
    const LOADED: u64 = 0xdead_beef_0bad_f00d;
    let mut obj = trait_obj!(IrSlotImp as IrSlot);
    for ch in [0u32, 3, 4, 22, 0xffff, 0x7fff_ffff] {
        let rd: unsafe extern "C" fn(_, u32, &mut MaybeUninit<u64>) -> i32 = obj.get_vtbl().rd();
        let mut slot = MaybeUninit::new(LOADED);
        let code = unsafe { rd(obj.ccont_ref(), ch, &mut slot) };
        let after = unsafe { slot.assume_init() };
        if ch < 4 { if code != 0 || after != 1000 + ch as u64 { rep.violation("GLUE:int-result-direct-call", &format!("rd({}) through the vtable entry: code {}, slot {:#x}", ch, code, after), ""); } }
        else if code != ch as i32 || after != LOADED { rep.violation("GLUE:int-result-slot-touched", &format!("rd({}) fails with code {}: the caller's output slot held {:#x} before the call and {:#x} after it", ch, code, LOADED, after), ""); }
        let rdp: unsafe extern "C" fn(_, u32, &mut MaybeUninit<P2>) -> i32 = obj.get_vtbl().rd_pod();
        let mut slot = MaybeUninit::new(P2 { a: 0xa5, b: 0x5a5a_5a5a, c: LOADED, d: 0x1234 });
        let code = unsafe { rdp(obj.ccont_mut(), ch, &mut slot) };
        let after = unsafe { slot.assume_init() };
        if ch < 4 { if code != 0 || after.a != ch as u8 || after.b != 77 + ch || after.c != 1000 + ch as u64 || after.d != -3 { rep.violation("GLUE:int-result-direct-call", &format!("rd_pod({}) through the vtable entry: code {}, slot {{{}, {:#x}, {:#x}, {}}}", ch, code, after.a, after.b, after.c, after.d), ""); } }
        else if code != ch as i32 || after.a != 0xa5 || after.b != 0x5a5a_5a5a || after.c != LOADED || after.d != 0x1234 { rep.violation("GLUE:int-result-slot-touched", &format!("rd_pod({}) fails with code {}: the caller's output slot was changed to {{{:#x}, {:#x}, {:#x}, {:#x}}}", ch, code, after.a, after.b, after.c, after.d), ""); }
        rep.add("int_result_direct_calls", 2);
    }
}

// ---- by-value Option arguments of methods whose return value is wrapped (these go through the lifetime-recast copy of the vtable entry) ----
#[cglue_trait]
pub trait OptLeaf { fn leaf(&self) -> u64; }
#[cglue_trait]
pub trait OptPick {
    #[wrap_with_obj(OptLeaf)]
    type Picked: OptLeaf + 'static;
    fn pick(&self, a: Option<u8>, b: Option<u16>, c: Option<bool>, d: Option<u64>) -> Self::Picked;
    fn pick_mut(&mut self, a: Option<u16>, b: Option<u8>) -> Self::Picked;
    fn plain(&self, a: Option<u8>) -> u64;
}
pub struct OptLeafImp(pub u64);
impl OptLeaf for OptLeafImp { fn leaf(&self) -> u64 { self.0 } }
pub struct OptPickImp;
fn opt_code<T: Into<u64>>(o: Option<T>) -> u64 { match o { None => 0x1_0000_0000, Some(v) => v.into() } }
impl OptPick for OptPickImp {
    type Picked = OptLeafImp;
    fn pick(&self, a: Option<u8>, b: Option<u16>, c: Option<bool>, d: Option<u64>) -> OptLeafImp { OptLeafImp(opt_code(a) ^ (opt_code(b) << 9) ^ (opt_code(c) << 27) ^ d.unwrap_or(0x55).rotate_left(40)) }
    fn pick_mut(&mut self, a: Option<u16>, b: Option<u8>) -> OptLeafImp { OptLeafImp(opt_code(a) ^ (opt_code(b) << 17)) }
    fn plain(&self, a: Option<u8>) -> u64 { opt_code(a) }
}
pub fn wrapped_return_arg_checks(rep: &mut gluert::Report) {
    let a8 = [None, Some(0u8), Some(1), Some(7), Some(200), Some(255)];
    let a16 = [None, Some(0u16), Some(1), Some(0x100), Some(0xffff)];
    let ab = [None, Some(false), Some(true)];
    let a64 = [None, Some(0u64), Some(u64::MAX)];
    let mut direct = OptPickImp;
    let mut obj = trait_obj!(OptPickImp as OptPick);
    for a in a8 { for b in a16 { for c in ab { for d in a64 {
        let want = direct.pick(a, b, c, d).0;
        let got = obj.pick(a, b, c, d).leaf();
        if got != want { rep.violation("GLUE:argument-altered", &format!("pick({:?}, {:?}, {:?}, {:?}) -> Self::Picked through an object: the implementor's digest of its arguments is {:#x}, a direct call gives {:#x}", a, b, c, d, got, want), "OptPick"); }
        rep.add("wrapped_return_option_args", 1);
    } } }
        for b in a16 {
            let want = direct.pick_mut(b, a).0;
            let got = obj.pick_mut(b, a).leaf();
            if got != want { rep.violation("GLUE:argument-altered", &format!("pick_mut({:?}, {:?}) through an object: digest {:#x}, direct {:#x}", b, a, got, want), "OptPick"); }
        }
        if obj.plain(a) != direct.plain(a) { rep.violation("GLUE:argument-altered", &format!("plain({:?}) through an object", a), "OptPick"); }
    }
}

fn main() {
    let a: Vec<String> = std::env::args().collect();
    let seed: u64 = a.get(1).and_then(|s| s.parse().ok()).unwrap_or(1);
    let nhist: u64 = a.get(2).and_then(|s| s.parse().ok()).unwrap_or(10);
    let maxlen: usize = a.get(3).and_then(|s| s.parse().ok()).unwrap_or(20);
    let only: String = a.get(4).cloned().unwrap_or_default();
    std::panic::set_hook(Box::new(|_| {}));
    let mut rep = gluert::Report::new();
    run_all(seed, nhist, maxlen, &only, &mut rep);
    if (only.is_empty() || only == "Ir") && !cfg!(miri) { int_result_slot_checks(&mut rep); }
    if only.is_empty() && !cfg!(miri) { wrapped_return_arg_checks(&mut rep); }
    for v in vmon::alloc::violations() {
        rep.violation(&format!("GLUE:alloc:{}", v.kind), &format!("ptr={:#x} allocated(size={},align={}) freed-as(size={},align={})", v.ptr, v.alloc_size, v.alloc_align, v.free_size, v.free_align), "");
    }
    if vmon::tracked::double_drops() > 0 { rep.violation("GLUE:double-drop", "a payload was dropped twice", ""); }
    if vmon::tracked::corruptions() > 0 { rep.violation("GLUE:payload-corrupt", "a payload read saw a foreign value", ""); }
    rep.finish();
}
"""

CARGO = """[package]
name = "gluecorpus"
version = "0.1.0"
edition = "2021"

[workspace]

[features]
default = ["track-alloc"]
track-alloc = []

[dependencies]
cglue = { path = "/repo/cglue" }
cglue-macro = { path = "/repo/cglue-macro" }
vmon = { path = "/verif/vmon" }
gluert = { path = "/verif/gluert" }

[profile.release]
debug = 1
opt-level = 1
codegen-units = 16

[profile.dev]
opt-level = 0
"""

if __name__ == "__main__":
    main()
