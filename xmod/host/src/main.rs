//! Host module: loads the separately compiled plugin, drives seeded histories against objects
//! created there, and compares every result with the same history run on objects created
//! inside this module.  Both modules carry their own tracking allocator: a block freed by the
//! module that did not allocate it shows up as "free of unknown block" in that module's table.
#![allow(clippy::all, improper_ctypes_definitions)]
use cglue::prelude::v1::*;
use cglue::trait_group::c_void;
use cglue::*;
use std::sync::Arc;
use xapi::vmon::rng::mix;
use xapi::vmon::{Report, Rng, Tracked};
use xapi::*;

#[global_allocator]
static GLOBAL: xapi::vmon::alloc::TrackingAlloc = xapi::vmon::alloc::TrackingAlloc;

struct Plugin {
    _lib: libloading::Library,
    root: unsafe extern "C" fn(CArc<c_void>) -> FactoryArcBox<'static>,
    store: unsafe extern "C" fn(u64) -> StoreBox<'static>,
    group: unsafe extern "C" fn(u64, CArc<c_void>) -> StoreGroupArcBox<'static>,
    vec: unsafe extern "C" fn(usize) -> CVec<u64>,
    use_store: unsafe extern "C" fn(StoreBox<'static>, u64) -> u64,
    take_vec: unsafe extern "C" fn(CVec<u64>) -> u64,
    grow_vec: unsafe extern "C" fn(CVec<u64>, u64) -> CVec<u64>,
    arc: unsafe extern "C" fn() -> CArc<c_void>,
    group_tagged: unsafe extern "C" fn(u64, CArc<c_void>, u64) -> StoreGroupArcBox<'static>,
    store_tagged: unsafe extern "C" fn(u64, CArc<c_void>, u64) -> StoreArcBox<'static>,
    set_ctx_probe: unsafe extern "C" fn(extern "C" fn(u64) -> bool),
    late_destructors: unsafe extern "C" fn() -> u64,
    arc_clone_drop: unsafe extern "C" fn(CArc<c_void>) -> CArc<c_void>,
    marks: unsafe extern "C" fn() -> [u64; 2],
    stats: unsafe extern "C" fn(u64, u64) -> ModuleStats,
    viol: unsafe extern "C" fn(CSliceMut<u8>) -> usize,
    info: unsafe extern "C" fn(CSliceMut<u8>) -> usize,
}

fn load(path: &str) -> Plugin {
    unsafe {
        let lib = libloading::Library::new(path).expect("cannot load plugin");
        macro_rules! sym {
            ($n:expr) => {
                *lib.get($n).expect("missing symbol")
            };
        }
        Plugin {
            root: sym!(b"plugin_root"),
            store: sym!(b"plugin_store"),
            group: sym!(b"plugin_group"),
            vec: sym!(b"plugin_vec"),
            use_store: sym!(b"plugin_use_store"),
            take_vec: sym!(b"plugin_take_vec"),
            grow_vec: sym!(b"plugin_grow_vec"),
            arc: sym!(b"plugin_arc"),
            group_tagged: sym!(b"plugin_group_tagged"),
            store_tagged: sym!(b"plugin_store_tagged"),
            set_ctx_probe: sym!(b"plugin_set_ctx_probe"),
            late_destructors: sym!(b"plugin_late_destructors"),
            arc_clone_drop: sym!(b"plugin_arc_clone_drop"),
            marks: sym!(b"plugin_marks"),
            stats: sym!(b"plugin_stats"),
            viol: sym!(b"plugin_violation_text"),
            info: sym!(b"plugin_build_info"),
            _lib: lib,
        }
    }
}

/// A context that stands for "the library is loaded": its payload's Drop captures the call
/// stack.  If the last reference dies while a generated `cglue_wrapped_*` frame is on the
/// stack, the library would have been unloaded from under its own running code.
static LIB_TRACES: std::sync::Mutex<Vec<(u64, bool, String)>> = std::sync::Mutex::new(Vec::new());
pub struct LibLike(pub u64);
impl Drop for LibLike {
    fn drop(&mut self) {
        let bt = std::backtrace::Backtrace::force_capture().to_string();
        let inside = bt.contains("cglue_wrapped_");
        let frames: Vec<&str> = bt.lines().filter(|l| l.contains("cglue_wrapped_")).take(3).collect();
        LIB_TRACES.lock().unwrap().push((self.0, inside, frames.join(" | ")));
    }
}
/// asked by the other module's instance destructors: is context `tag` still alive?
extern "C" fn ctx_alive(tag: u64) -> bool {
    !LIB_TRACES.lock().unwrap().iter().any(|x| x.0 == tag)
}
#[inline(never)]
fn cglue_wrapped_canary(l: Arc<LibLike>) {
    drop(l);
}
fn lib_verdict(id: u64) -> Option<(bool, String)> {
    LIB_TRACES.lock().unwrap().iter().find(|x| x.0 == id).map(|x| (x.1, x.2.clone()))
}

/// where the objects of one run come from
trait Side {
    fn root(&self, ctx: CArc<c_void>) -> FactoryArcBox<'static>;
    fn store(&self, seed: u64) -> StoreBox<'static>;
    fn group(&self, seed: u64, ctx: CArc<c_void>) -> StoreGroupArcBox<'static>;
    fn vec(&self, n: usize) -> CVec<u64>;
    fn use_store(&self, s: StoreBox<'static>, k: u64) -> u64;
    fn take_vec(&self, v: CVec<u64>) -> u64;
    fn grow_vec(&self, v: CVec<u64>, k: u64) -> CVec<u64>;
    fn arc(&self) -> CArc<c_void>;
    fn arc_clone_drop(&self, a: CArc<c_void>) -> CArc<c_void>;
}
impl Side for Plugin {
    fn root(&self, ctx: CArc<c_void>) -> FactoryArcBox<'static> { unsafe { (self.root)(ctx) } }
    fn store(&self, seed: u64) -> StoreBox<'static> { unsafe { (self.store)(seed) } }
    fn group(&self, seed: u64, ctx: CArc<c_void>) -> StoreGroupArcBox<'static> { unsafe { (self.group)(seed, ctx) } }
    fn vec(&self, n: usize) -> CVec<u64> { unsafe { (self.vec)(n) } }
    fn use_store(&self, s: StoreBox<'static>, k: u64) -> u64 { unsafe { (self.use_store)(s, k) } }
    fn take_vec(&self, v: CVec<u64>) -> u64 { unsafe { (self.take_vec)(v) } }
    fn grow_vec(&self, v: CVec<u64>, k: u64) -> CVec<u64> { unsafe { (self.grow_vec)(v, k) } }
    fn arc(&self) -> CArc<c_void> { unsafe { (self.arc)() } }
    fn arc_clone_drop(&self, a: CArc<c_void>) -> CArc<c_void> { unsafe { (self.arc_clone_drop)(a) } }
}
struct Local;
impl Side for Local {
    fn root(&self, ctx: CArc<c_void>) -> FactoryArcBox<'static> { trait_obj!((Fac::new(), ctx) as Factory) }
    fn store(&self, seed: u64) -> StoreBox<'static> { trait_obj!(Mem::new(seed) as Store) }
    fn group(&self, seed: u64, ctx: CArc<c_void>) -> StoreGroupArcBox<'static> { group_obj!((Mem::new(seed), ctx) as StoreGroup) }
    fn vec(&self, n: usize) -> CVec<u64> { CVec::from((0..n as u64).collect::<Vec<_>>()) }
    fn use_store(&self, mut s: StoreBox<'static>, k: u64) -> u64 { let a = s.put(k, &[1, 2, 3]); a ^ s.get(k).len() as u64 }
    fn take_vec(&self, v: CVec<u64>) -> u64 { v.iter().sum() }
    fn grow_vec(&self, v: CVec<u64>, k: u64) -> CVec<u64> { xapi::grow_vec(v, k) }
    fn arc(&self) -> CArc<c_void> { CArc::from(Tracked::new()).into_opaque() }
    fn arc_clone_drop(&self, a: CArc<c_void>) -> CArc<c_void> { let c = a.clone(); drop(a); c }
}

fn store_ops<S: Store>(s: &mut S, r: &mut Rng, n: usize, d: &mut u64) {
    for _ in 0..n {
        match r.below(11) {
            0 | 1 => {
                let k = r.below(5) as u64;
                let v: Vec<u8> = (0..r.below(9)).map(|_| r.next() as u8).collect();
                *d = mix(*d, s.put(k, &v));
            }
            2 => {
                let k = r.below(6) as u64;
                let g = s.get(k);
                *d = g.iter().fold(mix(*d, g.len() as u64), |a, b| mix(a, *b as u64));
            }
            3 => *d = s.name().bytes().fold(*d, |a, b| mix(a, b as u64)),
            4 => {
                let stop = r.below(4);
                let mut got = vec![];
                let mut f = |x: u64| { got.push(x); got.len() <= stop };
                let n = s.each((&mut f).into());
                *d = got.iter().fold(mix(*d, n as u64), |a, b| mix(a, *b));
            }
            5 => {
                let seed = r.next();
                let mut it = (0..r.below(5) as u64).map(|i| mix(seed, i));
                *d = mix(*d, s.absorb(CIterator::new(&mut it)));
            }
            6 => {
                // vector allocated by the implementing module: grown, written and released here
                let mut v = s.snapshot();
                let extra = r.below(20);
                for i in 0..extra { v.push(i as u64); }
                if !v.is_empty() { let l = v.len(); v[l - 1] ^= 1; }
                *d = v.iter().fold(mix(*d, v.len() as u64), |a, b| mix(a, *b));
                drop(v);
            }
            7 => {
                // vector allocated here, consumed over there
                let v = CVec::from((0..r.below(6) as u64).map(|i| mix(i, 3)).collect::<Vec<_>>());
                *d = mix(*d, s.fill(v) as u64);
            }
            8 => { let x = s.rec(Rec2 { k: r.next() as u8, v: r.edgy() }); *d = mix(mix(*d, x.k as u64), x.v); }
            9 => { let o = s.opt(if r.chance(1, 3) { None } else { Some(r.edgy()) }); *d = mix(*d, o.unwrap_or(0x77)); }
            _ => {
                let c = s.check(r.below(6) as u64);
                *d = mix(*d, match c { Ok(v) => v, Err(e) => e.raw_os_error().unwrap_or(0) as u64 | 1 << 40 });
            }
        }
    }
}

/// one history; returns the digest of everything observed
fn history(side: &dyn Side, seed: u64, ctx_arc: &Arc<Tracked>) -> (u64, Vec<String>) {
    let mut r = Rng::new(seed);
    let mut d = seed;
    let mut notes = vec![];
    let ctx = || CArc::<Tracked>::from(ctx_arc.clone()).into_opaque();
    let base = Arc::strong_count(ctx_arc);
    let mut root = Some(side.root(ctx()));
    let mut stores: Vec<StoreArcBox<'static>> = vec![];
    let mut plain: Vec<StoreBox<'static>> = vec![];
    let mut groups: Vec<StoreGroupArcBox<'static>> = vec![];
    let mut borrowed_calls = 0usize;
    for _ in 0..(4 + r.below(20)) {
        match r.below(14) {
            0 if root.is_some() && stores.len() < 4 => stores.push(root.as_ref().unwrap().make(r.next())),
            1 if root.is_some() && groups.len() < 3 => groups.push(root.as_ref().unwrap().make_group(r.next())),
            2 if plain.len() < 3 => plain.push(side.store(r.next())),
            3 if groups.len() < 3 => groups.push(side.group(r.next(), ctx())),
            4 if !stores.is_empty() => { let i = r.below(stores.len()); store_ops(&mut stores[i], &mut r, 5, &mut d); }
            5 if !plain.is_empty() => { let i = r.below(plain.len()); store_ops(&mut plain[i], &mut r, 5, &mut d); }
            6 if !groups.is_empty() => {
                let i = r.below(groups.len());
                store_ops(&mut groups[i], &mut r, 3, &mut d);
                let g = groups.swap_remove(i);
                // cast, use the optional traits, clone in this module, cast back
                let c = cast!(g impl Extra + Clone).expect("both optional traits are enabled");
                d = mix(d, c.extra());
                let mut cl = c.clone();
                store_ops(&mut cl, &mut r, 2, &mut d);
                d = mix(d, cl.extra());
                groups.push(c.upcast());
                if groups.len() < 4 && r.chance(1, 2) { groups.push(cl.upcast()); }
            }
            7 if root.is_some() => {
                let b = root.as_mut().unwrap().borrow();
                store_ops(b, &mut r, 3, &mut d);
                borrowed_calls += 1;
                d = mix(d, root.as_ref().unwrap().stats());
            }
            8 if !plain.is_empty() => { let s = plain.swap_remove(r.below(plain.len())); d = mix(d, side.use_store(s, r.below(4) as u64)); }
            9 => {
                // a vector made by `side` (exact capacity), edited here with every growing and shrinking operation
                let mut v = side.vec(r.below(6));
                for i in 0..r.below(40) {
                    match r.below(6) {
                        0 | 1 => v.push(i as u64 * 3),
                        2 => { let at = r.below(v.len() + 1); v.insert(at, i as u64 ^ 0x55); }
                        3 if !v.is_empty() => { let at = r.below(v.len()); d = mix(d, v.remove(at)); }
                        4 => d = mix(d, v.pop().unwrap_or(7)),
                        _ => v.reserve(r.below(9)),
                    }
                }
                if r.chance(1, 3) { v = side.grow_vec(v, r.below(20) as u64); }
                if r.chance(1, 2) {
                    // a clone made in this module is this module's vector: grown and released here
                    let mut c = v.clone();
                    for i in 0..r.below(30) { c.push(i as u64 ^ 0x77); }
                    c.insert(0, 9);
                    d = mix(d, c.iter().fold(c.len() as u64, |a, x| mix(a, *x)));
                    if r.chance(1, 2) { drop(c); } else { d = mix(d, side.take_vec(c)); }
                }
                let s: u64 = v.iter().fold(v.len() as u64, |a, x| mix(a, *x));
                d = mix(d, if r.chance(1, 2) { drop(v); s } else { s ^ side.take_vec(v) });
            }
            11 => {
                // a vector made here, grown (front inserts) by `side`, then edited and released here
                let n = r.below(5);
                let mut v = CVec::from((0..n as u64).map(|i| mix(i, 9)).collect::<Vec<_>>());
                v = side.grow_vec(v, 1 + r.below(12) as u64);
                v.insert(0, 1);
                d = mix(d, v.iter().fold(v.len() as u64, |a, x| mix(a, *x)));
            }
            12 => {
                // reference-counted values: made by `side`, cloned here and there, released in every order
                let a = side.arc();
                let b = a.clone();
                let c = side.arc_clone_drop(b);
                let e = c.clone();
                match r.below(3) { 0 => { drop(a); drop(c); drop(e); } 1 => { drop(e); drop(c); drop(a); } _ => { drop(c); drop(a); drop(e); } }
                // made here, cloned by `side`, the foreign clone released last
                let h = CArc::from(Tracked::new()).into_opaque();
                let h2 = side.arc_clone_drop(h.clone());
                if r.chance(1, 2) { drop(h); drop(h2); } else { drop(h2); drop(h); }
                d = mix(d, 12);
            }
            10 if root.is_some() && r.chance(1, 3) => d = mix(d, root.take().unwrap().fin()),
            _ => {
                if !stores.is_empty() && r.chance(1, 2) { drop(stores.swap_remove(r.below(stores.len()))); }
                else if !groups.is_empty() { drop(groups.swap_remove(r.below(groups.len()))); }
            }
        }
        let live = root.is_some() as usize + stores.len() + groups.len();
        let c = Arc::strong_count(ctx_arc);
        // the open C07 finding: every borrowed-child call leaves one context clone behind
        if c != base + live + borrowed_calls && c != base + live {
            notes.push(format!("context count {} with {} live objects ({} borrowed-child calls)", c, live, borrowed_calls));
        }
    }
    drop(stores);
    drop(groups);
    drop(plain);
    drop(root);
    (d, notes)
}

fn main() {
    let a: Vec<String> = std::env::args().collect();
    let plugin = load(&a[1]);
    let seed: u64 = a.get(2).and_then(|s| s.parse().ok()).unwrap_or(1);
    let nhist: u64 = a.get(3).and_then(|s| s.parse().ok()).unwrap_or(50);
    let mut rep = Report::new();
    let text = |f: unsafe extern "C" fn(CSliceMut<u8>) -> usize| -> String {
        let mut buf = vec![0u8; 2048];
        let n = unsafe { f(CSliceMut::from(&mut buf[..])) };
        String::from_utf8_lossy(&buf[..n]).to_string()
    };
    let host_info = format!("host: rustc {} debug_assertions={} size_of<Mem>={} size_of<Fac>={}", option_env!("XMOD_RUSTC").unwrap_or("?"), cfg!(debug_assertions), std::mem::size_of::<Mem>(), std::mem::size_of::<Fac>());
    rep.sample("C05 module pair", &format!("{} | {}", host_info, text(plugin.info)));
    // the backtrace oracle must be able to see a wrapper frame in this build (else that clause is not judged)
    cglue_wrapped_canary(Arc::new(LibLike(1)));
    let canary_ok = lib_verdict(1).map(|v| v.0).unwrap_or(false);
    rep.add("backtrace_canary_ok", canary_ok as u64);
    unsafe { (plugin.set_ctx_probe)(ctx_alive) };
    for h in 0..nhist {
        let hs = seed.wrapping_mul(1_000_003).wrapping_add(h);
        let pm = unsafe { (plugin.marks)() };
        let hm = [xapi::vmon::tracked::mark(), xapi::vmon::alloc::seq()];
        let ctx_p = Arc::new(Tracked::new());
        let ctx_l = Arc::new(Tracked::new());
        let (dp, np) = history(&plugin, hs, &ctx_p);
        let (dl, _nl) = history(&Local, hs, &ctx_l);
        if dp != dl {
            rep.violation("C05:result-differs-across-modules", &format!("history seed {}: digest {:#x} with plugin-made objects, {:#x} with objects made in this module", hs, dp, dl), &format!("{}", hs));
        }
        for n in np.iter().take(1) {
            rep.violation("C05:context-count", &format!("history seed {}: {}", hs, n), &format!("{}", hs));
        }
        drop(ctx_p);
        drop(ctx_l);
        let ps = unsafe { (plugin.stats)(pm[0], pm[1]) };
        let hs_ = module_stats(hm[0], hm[1]);
        if ps.alloc_violations != 0 {
            rep.violation("C05:foreign-free-in-plugin", &format!("the plugin's allocator saw a block freed/reallocated that it did not allocate or with another layout: {}", text(plugin.viol)), &format!("{}", hs));
            break;
        }
        if hs_.alloc_violations != 0 {
            rep.violation("C05:foreign-free-in-host", &format!("the host's allocator saw a block freed/reallocated that it did not allocate or with another layout: {}", alloc_violation_text()), &format!("{}", hs));
            break;
        }
        if ps.double_drops != 0 || hs_.double_drops != 0 {
            rep.violation("C05:double-drop", &format!("history {}: payload dropped twice (plugin {}, host {})", hs, ps.double_drops, hs_.double_drops), &format!("{}", hs));
        }
        // the borrowed-child leak (C07) pins one context clone -> the context payloads may stay alive; instances must not
        if ps.live_payloads != 0 {
            rep.violation("C05:plugin-instances-leaked", &format!("history {}: {} payloads created in the plugin are still alive after everything was dropped", hs, ps.live_payloads), &format!("{}", hs));
        }
        // the object is the only holder of its context and is consumed by a by-value call into the other module
        if canary_ok {
            let id = 1_000_000 + h;
            let lib = Arc::new(LibLike(id));
            let weak = Arc::downgrade(&lib);
            let obj = plugin.root(CArc::<LibLike>::from(lib).into_opaque());
            let _ = obj.stats();
            let _ = obj.fin();
            match lib_verdict(id) {
                _ if weak.strong_count() != 0 => rep.violation("C05:context-not-released", &format!("history {}: the consumed object was the only holder, the context is still alive", hs), &format!("{}", hs)),
                Some((true, frames)) => rep.violation("C05:context-released-inside-consuming-call", &format!("history {}: the last context reference was released while the other module's wrapper was still running: {}", hs, frames.replace('"', "'")), &format!("{}", hs)),
                Some((false, _)) => rep.add("consuming_calls_with_sole_context", 1),
                None => rep.violation("C05:context-not-released", &format!("history {}: context payload never dropped", hs), &format!("{}", hs)),
            }
        }
        // objects that are the last holder of their context are destroyed here: the instance's destructor (the other
        // module's code) must run while the context is still alive, for single-trait objects, groups and cast forms
        {
            let late0 = unsafe { (plugin.late_destructors)() };
            for k in 0..4u64 {
                let id = 2_000_000 + h * 4 + k;
                let lib = Arc::new(LibLike(id));
                let ctx = CArc::<LibLike>::from(lib).into_opaque();
                match k {
                    0 => drop(unsafe { (plugin.store_tagged)(hs, ctx, id) }),
                    1 => drop(unsafe { (plugin.group_tagged)(hs, ctx, id) }),
                    2 => { let g = unsafe { (plugin.group_tagged)(hs, ctx, id) }; let c = cast!(g impl Extra).expect("Extra enabled"); drop(c); }
                    _ => { let g = unsafe { (plugin.group_tagged)(hs, ctx, id) }; let c = into!(g impl Extra + Clone).expect("both enabled"); drop(c); }
                }
            }
            let late = unsafe { (plugin.late_destructors)() } - late0;
            if late != 0 {
                rep.violation("C05:instance-destroyed-after-its-context", &format!("history {}: {} plugin-made instance(s) were destroyed after the context they depend on had been released", hs, late), &format!("{}", hs));
            }
            rep.add("sole_holder_drops", 4);
        }
        rep.add("histories", 1);
        rep.add("plugin_tracking_active", ps.tracking_active);
        rep.distinct(dp);
    }
    rep.add("host_tracking_active", xapi::vmon::alloc::active() as u64);
    rep.finish();
}
