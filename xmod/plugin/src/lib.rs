//! The separately compiled module.  Own allocator (own live table), own payload registry.
#![allow(clippy::all, improper_ctypes_definitions)]
use cglue::prelude::v1::*;
use cglue::trait_group::c_void;
use cglue::*;
use xapi::*;

#[global_allocator]
static GLOBAL: xapi::vmon::alloc::TrackingAlloc = xapi::vmon::alloc::TrackingAlloc;

#[no_mangle]
pub extern "C" fn plugin_root(ctx: CArc<c_void>) -> FactoryArcBox<'static> {
    trait_obj!((Fac::new(), ctx) as Factory)
}
#[no_mangle]
pub extern "C" fn plugin_store(seed: u64) -> StoreBox<'static> {
    trait_obj!(Mem::new(seed) as Store)
}
#[no_mangle]
pub extern "C" fn plugin_group(seed: u64, ctx: CArc<c_void>) -> StoreGroupArcBox<'static> {
    group_obj!((Mem::new(seed), ctx) as StoreGroup)
}
/// a vector allocated here, to be grown and released by the host
#[no_mangle]
pub extern "C" fn plugin_vec(n: usize) -> CVec<u64> {
    CVec::from((0..n as u64).collect::<Vec<_>>())
}
/// consumes objects / vectors made by the host
#[no_mangle]
pub extern "C" fn plugin_use_store(mut s: StoreBox<'static>, k: u64) -> u64 {
    let a = s.put(k, &[1, 2, 3]);
    let b = s.get(k).len() as u64;
    a ^ b
}
#[no_mangle]
pub extern "C" fn plugin_take_vec(v: CVec<u64>) -> u64 {
    v.iter().sum()
}
#[no_mangle]
pub extern "C" fn plugin_grow_vec(v: CVec<u64>, k: u64) -> CVec<u64> {
    xapi::grow_vec(v, k)
}
/// a reference-counted value allocated here
#[no_mangle]
pub extern "C" fn plugin_arc() -> CArc<c_void> {
    CArc::from(xapi::vmon::Tracked::new()).into_opaque()
}
/// clones the handle it is given in this module, releases the original, returns the clone
#[no_mangle]
pub extern "C" fn plugin_arc_clone_drop(a: CArc<c_void>) -> CArc<c_void> {
    let c = a.clone();
    drop(a);
    c
}
/// a group whose instance will ask, when it is destroyed, whether context `tag` (owned by the host) is still alive
#[no_mangle]
pub extern "C" fn plugin_group_tagged(seed: u64, ctx: CArc<c_void>, tag: u64) -> StoreGroupArcBox<'static> {
    let mut m = Mem::new(seed);
    m.ctx_tag = tag;
    group_obj!((m, ctx) as StoreGroup)
}
#[no_mangle]
pub extern "C" fn plugin_store_tagged(seed: u64, ctx: CArc<c_void>, tag: u64) -> StoreArcBox<'static> {
    let mut m = Mem::new(seed);
    m.ctx_tag = tag;
    trait_obj!((m, ctx) as Store)
}
#[no_mangle]
pub extern "C" fn plugin_set_ctx_probe(f: extern "C" fn(u64) -> bool) {
    xapi::CTX_ALIVE_PROBE.store(f as usize, std::sync::atomic::Ordering::SeqCst);
}
#[no_mangle]
pub extern "C" fn plugin_late_destructors() -> u64 {
    xapi::LATE_DESTRUCTORS.load(std::sync::atomic::Ordering::SeqCst)
}
#[no_mangle]
pub extern "C" fn plugin_marks() -> [u64; 2] {
    [xapi::vmon::tracked::mark(), xapi::vmon::alloc::seq()]
}
#[no_mangle]
pub extern "C" fn plugin_stats(mark_payload: u64, mark_seq: u64) -> ModuleStats {
    module_stats(mark_payload, mark_seq)
}
// text goes into a buffer owned by the caller (an owned ReprCString has no drop function and
// must not be released by another module)
fn write_text(t: &str, mut out: CSliceMut<u8>) -> usize {
    let n = t.len().min(out.len());
    out[..n].copy_from_slice(&t.as_bytes()[..n]);
    n
}
#[no_mangle]
pub extern "C" fn plugin_violation_text(out: CSliceMut<u8>) -> usize {
    write_text(&alloc_violation_text(), out)
}
#[no_mangle]
pub extern "C" fn plugin_build_info(out: CSliceMut<u8>) -> usize {
    write_text(&format!("plugin: rustc {} debug_assertions={} size_of<Mem>={} size_of<Fac>={}", option_env!("XMOD_RUSTC").unwrap_or("?"), cfg!(debug_assertions), std::mem::size_of::<Mem>(), std::mem::size_of::<Fac>()), out)
}
