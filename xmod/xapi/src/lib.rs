//! API shared by host and plugin: CGlue traits, a group, and the (generic) implementors.  The
//! crate is compiled separately into each module - by different compilers in the C05 matrix.
#![allow(clippy::all, mismatched_lifetime_syntaxes)]
use cglue::prelude::v1::*;
use cglue::*;
pub use vmon;
use vmon::rng::mix;
use vmon::Tracked;

#[repr(C)]
#[derive(Clone, Copy, Debug, PartialEq)]
pub struct Rec2 {
    pub k: u8,
    pub v: u64,
}

#[cglue_trait]
pub trait Store {
    fn put(&mut self, k: u64, v: &[u8]) -> u64;
    fn get(&self, k: u64) -> &[u8];
    fn name(&self) -> &str;
    fn each(&self, cb: OpaqueCallback<u64>) -> usize;
    fn absorb(&mut self, it: CIterator<u64>) -> u64;
    /// a vector allocated by the implementing module, handed to the caller
    fn snapshot(&self) -> CVec<u64>;
    /// a vector allocated by the caller, consumed by the implementing module
    fn fill(&mut self, v: CVec<u64>) -> usize;
    fn rec(&self, r: Rec2) -> Rec2;
    fn opt(&self, o: Option<u64>) -> Option<u64>;
    #[int_result]
    fn check(&self, k: u64) -> Result<u64, std::io::Error>;
}
#[cglue_trait]
pub trait Extra {
    fn extra(&self) -> u64;
}
cglue_trait_group!(StoreGroup, Store, { Extra, Clone });

#[cglue_trait]
pub trait Factory {
    #[wrap_with_obj(Store)]
    type S: Store + 'static;
    #[wrap_with_group(StoreGroup)]
    type G: Store + 'static;
    #[wrap_with_obj_mut(Store)]
    type B: Store + 'static;
    fn make(&self, seed: u64) -> Self::S;
    fn make_group(&self, seed: u64) -> Self::G;
    fn borrow(&mut self) -> &mut Self::B;
    fn stats(&self) -> u64;
    fn fin(self) -> u64;
}

// ---- implementors (the same source on both sides) ---------------------------------------------
pub struct Mem {
    pub seed: u64,
    pub data: Vec<(u64, Vec<u8>)>,
    pub nums: Vec<u64>,
    pub name: String,
    pub t: Tracked,
    /// non-zero: when this instance is destroyed it asks the module that owns context `tag` whether that context is still alive
    pub ctx_tag: u64,
}
/// `extern "C" fn(tag) -> bool` installed by the other module (0 = none)
pub static CTX_ALIVE_PROBE: std::sync::atomic::AtomicUsize = std::sync::atomic::AtomicUsize::new(0);
/// destructors of this module's instances that ran after their context had been released
pub static LATE_DESTRUCTORS: std::sync::atomic::AtomicU64 = std::sync::atomic::AtomicU64::new(0);
impl Mem {
    pub fn new(seed: u64) -> Mem {
        Mem { seed, data: vec![], nums: vec![seed, seed ^ 1], name: format!("mem-{:x}-\u{e9}", seed), t: Tracked::new(), ctx_tag: 0 }
    }
}
impl Drop for Mem {
    fn drop(&mut self) {
        let p = CTX_ALIVE_PROBE.load(std::sync::atomic::Ordering::SeqCst);
        if self.ctx_tag != 0 && p != 0 {
            let f: extern "C" fn(u64) -> bool = unsafe { std::mem::transmute(p) };
            if !f(self.ctx_tag) {
                LATE_DESTRUCTORS.fetch_add(1, std::sync::atomic::Ordering::SeqCst);
            }
        }
    }
}
impl Clone for Mem {
    fn clone(&self) -> Self {
        Mem { seed: mix(self.seed, 99), data: self.data.clone(), nums: self.nums.clone(), name: self.name.clone(), t: Tracked::new(), ctx_tag: 0 }
    }
}
impl Store for Mem {
    fn put(&mut self, k: u64, v: &[u8]) -> u64 {
        self.t.touch();
        let d = v.iter().fold(k, |a, b| mix(a, *b as u64));
        if let Some(e) = self.data.iter_mut().find(|e| e.0 == k) {
            e.1 = v.to_vec();
        } else {
            self.data.push((k, v.to_vec()));
        }
        self.seed = mix(self.seed, d);
        self.seed
    }
    fn get(&self, k: u64) -> &[u8] {
        self.data.iter().find(|e| e.0 == k).map(|e| &e.1[..]).unwrap_or(&[])
    }
    fn name(&self) -> &str {
        &self.name
    }
    fn each(&self, mut cb: OpaqueCallback<u64>) -> usize {
        let mut n = 0;
        for x in &self.nums {
            n += 1;
            if !cb.call(*x) {
                break;
            }
        }
        n
    }
    fn absorb(&mut self, it: CIterator<u64>) -> u64 {
        let mut d = self.seed;
        for x in it {
            self.nums.push(x);
            d = mix(d, x);
        }
        self.seed = d;
        d
    }
    fn snapshot(&self) -> CVec<u64> {
        CVec::from(self.nums.clone())
    }
    fn fill(&mut self, v: CVec<u64>) -> usize {
        self.nums.extend(v.iter().copied());
        self.seed = v.iter().fold(self.seed, |a, b| mix(a, *b));
        v.len()
    }
    fn rec(&self, r: Rec2) -> Rec2 {
        Rec2 { k: r.k.wrapping_add(1), v: mix(r.v, self.seed) }
    }
    fn opt(&self, o: Option<u64>) -> Option<u64> {
        match o {
            Some(x) if x & 1 == 0 => Some(mix(x, self.seed)),
            Some(_) => None,
            None => Some(self.seed),
        }
    }
    fn check(&self, k: u64) -> Result<u64, std::io::Error> {
        if self.data.iter().any(|e| e.0 == k) {
            Ok(self.seed)
        } else {
            Err(std::io::Error::from_raw_os_error(1 + (k % 100) as i32))
        }
    }
}
impl Extra for Mem {
    fn extra(&self) -> u64 {
        mix(self.seed, 7)
    }
}
cglue_impl_group!(Mem, StoreGroup, { Extra, Clone });

pub struct Fac {
    pub made: u64,
    pub own: Mem,
    pub t: Tracked,
}
impl Fac {
    pub fn new() -> Fac {
        Fac { made: 0, own: Mem::new(0xFAC), t: Tracked::new() }
    }
}
impl Factory for Fac {
    type S = Mem;
    type G = Mem;
    type B = Mem;
    fn make(&self, seed: u64) -> Mem {
        Mem::new(seed)
    }
    fn make_group(&self, seed: u64) -> Mem {
        Mem::new(seed ^ 0x6)
    }
    fn borrow(&mut self) -> &mut Mem {
        self.made += 1;
        &mut self.own
    }
    fn stats(&self) -> u64 {
        mix(self.made, self.own.seed)
    }
    fn fin(self) -> u64 {
        self.own.seed
    }
}

/// counters each module exports about itself
#[repr(C)]
#[derive(Clone, Copy, Debug, Default)]
pub struct ModuleStats {
    pub live_payloads: i64,
    pub double_drops: u64,
    pub alloc_violations: u64,
    pub live_blocks: u64,
    pub alloc_seq: u64,
    pub tracking_active: u64,
}
pub fn module_stats(mark_payload: u64, mark_seq: u64) -> ModuleStats {
    let (leaked, multi) = vmon::tracked::since(mark_payload);
    ModuleStats {
        live_payloads: leaked.len() as i64,
        double_drops: multi.len() as u64 + vmon::tracked::double_drops(),
        alloc_violations: vmon::alloc::violation_count() as u64,
        live_blocks: vmon::alloc::live_since(mark_seq).len() as u64,
        alloc_seq: vmon::alloc::seq(),
        tracking_active: vmon::alloc::active() as u64,
    }
}
pub fn alloc_violation_text() -> String {
    vmon::alloc::violations().iter().map(|v| format!("kind={} ptr={:#x} alloc(size={},align={}) free(size={},align={})", v.kind, v.ptr, v.alloc_size, v.alloc_align, v.free_size, v.free_align)).collect::<Vec<_>>().join("; ")
}

/// grows a vector it did not necessarily allocate: inserts at the front (the path that shifts), then pushes
pub fn grow_vec(mut v: cglue::vec::CVec<u64>, k: u64) -> cglue::vec::CVec<u64> {
    for i in 0..k {
        if i % 2 == 0 {
            v.insert(0, i ^ 0xa5);
        } else {
            v.push(i);
        }
    }
    v
}
