//! Runs the real generator (cglue-gen linked as a library: the same `gen_trait` /
//! `TraitGroup::create_group` / `TraitGroupImpl::implement_group` the proc-macros call) on a
//! file of definitions and prints the expansion as plain Rust source.
//! usage: expander <input.rs> [--structs]   (--structs: print one line per generated struct:
//! name, field list -- used to compare independent expansions)
use cglue_gen::trait_groups::{TraitGroup, TraitGroupImpl};
use quote::ToTokens;
use syn::{Item, ItemStruct};

fn expand_items(items: Vec<Item>, out: &mut Vec<proc_macro2::TokenStream>) {
    for it in items {
        match it {
            Item::Trait(mut tr) => {
                // attribute macros expand outside-in, one at a time: the output of `cglue_trait` still carries
                // a `cglue_forward` written below it, which then runs on the re-emitted trait item
                let is = |a: &syn::Attribute, n: &str| a.path.to_token_stream().to_string() == n;
                if let Some(pos) = tr.attrs.iter().position(|a| is(a, "cglue_trait") || is(a, "cglue_forward")) {
                    let which = tr.attrs.remove(pos);
                    let ts = if is(&which, "cglue_trait") { cglue_gen::traits::gen_trait(tr, None) } else { cglue_gen::forward::gen_forward(tr, None) };
                    let parsed: syn::File = syn::parse2(ts).expect("re-parse of an attribute expansion failed");
                    expand_items(parsed.items, out);
                } else {
                    out.push(tr.to_token_stream());
                }
            }
            Item::Macro(m) => {
                let name = m.mac.path.segments.last().map(|s| s.ident.to_string()).unwrap_or_default();
                match name.as_str() {
                    "cglue_trait_group" => {
                        let g: TraitGroup = syn::parse2(m.mac.tokens.clone()).expect("cannot parse cglue_trait_group! arguments");
                        out.push(g.create_group());
                    }
                    "cglue_impl_group" => {
                        let g: TraitGroupImpl = syn::parse2(m.mac.tokens.clone()).expect("cannot parse cglue_impl_group! arguments");
                        out.push(g.implement_group());
                    }
                    _ => out.push(m.to_token_stream()),
                }
            }
            Item::Mod(mut md) => {
                if let Some((brace, items)) = md.content.take() {
                    let mut inner = vec![];
                    expand_items(items, &mut inner);
                    let mut ts = proc_macro2::TokenStream::new();
                    for t in inner {
                        ts.extend(t);
                    }
                    let parsed: syn::File = syn::parse2(ts).expect("re-parse of expanded module failed");
                    md.content = Some((brace, parsed.items));
                    out.push(md.to_token_stream());
                } else {
                    out.push(md.to_token_stream());
                }
            }
            other => out.push(other.to_token_stream()),
        }
    }
}

fn collect_structs(items: &[Item], path: &str, out: &mut Vec<String>) {
    for it in items {
        match it {
            Item::Struct(ItemStruct { ident, fields, attrs, generics, .. }) => {
                let repr = attrs.iter().filter(|a| a.path.to_token_stream().to_string() == "repr").map(|a| a.tokens.to_string()).collect::<Vec<_>>().join(",");
                let f: Vec<String> = fields.iter().map(|f| format!("{}: {}", f.ident.as_ref().map(|i| i.to_string()).unwrap_or_default(), f.ty.to_token_stream())).collect();
                out.push(format!("{}::{}{} repr{} {{ {} }}", path, ident, generics.to_token_stream(), repr, f.join("; ")));
            }
            Item::Mod(m) => {
                if let Some((_, items)) = &m.content {
                    collect_structs(items, &format!("{}::{}", path, m.ident), out);
                }
            }
            _ => {}
        }
    }
}

fn main() {
    let a: Vec<String> = std::env::args().collect();
    let src = std::fs::read_to_string(&a[1]).expect("cannot read input");
    let file: syn::File = syn::parse_str(&src).expect("cannot parse input");
    let mut out = vec![];
    let structs = a.iter().any(|x| x == "--structs");
    if !structs {
        for attr in &file.attrs {
            println!("{}", attr.to_token_stream());
        }
    }
    expand_items(file.items, &mut out);
    if structs {
        let mut ts = proc_macro2::TokenStream::new();
        for t in out {
            ts.extend(t);
        }
        let parsed: syn::File = syn::parse2(ts).expect("re-parse failed");
        let mut lines = vec![];
        collect_structs(&parsed.items, "", &mut lines);
        for l in lines {
            println!("{}", l);
        }
    } else {
        for t in out {
            println!("{}", t);
        }
    }
}
