//! C19 on the library's no_std build (`default-features = false, features = ["task"]`): a waker retained from a poll through an
//! opaque Future is cloned / woken / dropped concurrently by several threads; the caller's waker must be cloned once, woken once per
//! wake, and released exactly once after the last foreign-side handle is gone.   usage: nostdwaker <threads> <iters> <rounds>
use cglue::*;
use core::future::Future;
use core::pin::Pin;
use core::task::{Context, Poll, RawWaker, RawWakerVTable, Waker};
use std::sync::atomic::{AtomicUsize, Ordering::SeqCst};
use std::sync::{Arc, Mutex};

#[derive(Default)]
struct Counts { clones: AtomicUsize, wakes: AtomicUsize, drops: AtomicUsize }
static VTABLE: RawWakerVTable = RawWakerVTable::new(w_clone, w_wake, w_wake_by_ref, w_drop);
unsafe fn counts<'a>(p: *const ()) -> &'a Counts { &*(p as *const Counts) }
unsafe fn w_clone(p: *const ()) -> RawWaker { counts(p).clones.fetch_add(1, SeqCst); RawWaker::new(p, &VTABLE) }
unsafe fn w_wake(p: *const ()) { counts(p).wakes.fetch_add(1, SeqCst); counts(p).drops.fetch_add(1, SeqCst); }
unsafe fn w_wake_by_ref(p: *const ()) { counts(p).wakes.fetch_add(1, SeqCst); }
unsafe fn w_drop(p: *const ()) { counts(p).drops.fetch_add(1, SeqCst); }

struct Grab(Arc<Mutex<Option<Waker>>>);
impl Future for Grab {
    type Output = ();
    fn poll(self: Pin<&mut Self>, cx: &mut Context<'_>) -> Poll<()> { *self.0.lock().unwrap() = Some(cx.waker().clone()); Poll::Pending }
}

fn violation(sig: &str, detail: String) {
    println!("{{\"k\":\"violation\",\"sig\":\"C19:no-std-build:{}\",\"detail\":{:?},\"replay\":\"\"}}", sig, detail);
}

fn round(threads: usize, iters: usize) -> u32 {
    let mut bad = 0;
    let slot = Arc::new(Mutex::new(None));
    let mut obj = Box::pin(trait_obj!(Grab(slot.clone()) as Future));
    let c = Box::new(Counts::default());
    let cref: &Counts = &c;
    let waker = unsafe { Waker::from_raw(RawWaker::new(cref as *const Counts as *const (), &VTABLE)) };
    let mut cx = Context::from_waker(&waker);
    assert!(obj.as_mut().poll(&mut cx).is_pending());
    let handle: Waker = slot.lock().unwrap().take().unwrap();
    let early = AtomicUsize::new(0);
    std::thread::scope(|s| {
        for t in 0..threads {
            let (handle, early) = (&handle, &early);
            s.spawn(move || {
                for i in 0..iters {
                    let w = handle.clone();
                    if i % 10 == t % 10 { w.wake_by_ref(); }
                    drop(w);
                    if cref.drops.load(SeqCst) != 0 { early.fetch_add(1, SeqCst); return; }
                }
            });
        }
    });
    let want_wakes: usize = (0..threads).map(|t| (0..iters).filter(|i| i % 10 == t % 10).count()).sum();
    if early.load(SeqCst) != 0 || cref.drops.load(SeqCst) != 0 { violation("released-while-handles-alive", format!("{} threads x {} clone/drop of a retained handle: the clone of the caller's waker was released {} time(s) while the retained handle is alive", threads, iters, cref.drops.load(SeqCst))); bad += 1; }
    else {
        if cref.wakes.load(SeqCst) != want_wakes { violation("wake-count", format!("{} wakes reached the caller, {} were made", cref.wakes.load(SeqCst), want_wakes)); bad += 1; }
        if cref.clones.load(SeqCst) != 1 { violation("clone-count", format!("caller's waker cloned {} times for one retained handle", cref.clones.load(SeqCst))); bad += 1; }
        drop(handle);
        if cref.drops.load(SeqCst) != 1 { violation("release-count", format!("after the last foreign-side handle: {} releases (want 1)", cref.drops.load(SeqCst))); bad += 1; }
        drop(obj);
        drop(waker);
        if cref.drops.load(SeqCst) != 2 { violation("release-count", format!("at the end: {} releases (want 2: clone + original)", cref.drops.load(SeqCst))); bad += 1; }
    }
    bad
}

fn main() {
    let a: Vec<String> = std::env::args().collect();
    let g = |i: usize, d: usize| a.get(i).and_then(|s| s.parse().ok()).unwrap_or(d);
    let (threads, iters, rounds) = (g(1, 8), g(2, 50_000), g(3, 4));
    let mut bad = 0;
    let mut done = 0;
    for _ in 0..rounds { bad += round(threads, iters); done += 1; if bad != 0 { break; } }
    println!("{{\"k\":\"stat\",\"no_std_rounds\":{},\"no_std_handle_ops\":{},\"violations_seen\":{}}}", done, done * threads * iters, bad);
    println!("{{\"k\":\"done\"}}");
}
