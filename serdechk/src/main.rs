//! C14 with the library's `serde` feature: a ReprCString built by deserialisation is a ReprCString built from that string.
use cglue::repr_cstring::ReprCString;
use serde::de::value::{BorrowedStrDeserializer, Error as VErr, StrDeserializer, StringDeserializer};
use serde::Deserialize;

fn corpus() -> Vec<String> {
    let atoms = ["", "a", "\0", "é", "€", "😀", "\n", "\"", "\\", "\t", " ", "z\0z", "\u{7f}", "\u{1}"];
    let mut out: Vec<String> = vec![];
    for a in atoms { out.push(a.to_string()); }
    for a in atoms { for b in atoms { out.push(format!("{}{}", a, b)); } }
    for a in atoms { for b in atoms { for c in ["", "x", "\0", "é"] { out.push(format!("{}k{}{}", a, b, c)); } } }
    out.push("long ".repeat(50));
    out.push(format!("{}\0tail", "p".repeat(300)));
    out
}

fn main() {
    let mut n = 0u64;
    let mut viol = 0u64;
    let mut bad = |sig: &str, detail: String| {
        viol += 1;
        if viol <= 12 { println!("{{\"k\":\"violation\",\"sig\":\"C14:{}\",\"detail\":{:?},\"replay\":\"\"}}", sig, detail); }
    };
    for s in corpus() {
        let want = ReprCString::from(s.as_str());
        let prefix = s.split('\0').next().unwrap().to_string();
        if want.as_ref() != prefix { bad("serde-harness", format!("from({:?}) reads {:?}", s, want.as_ref())); }
        // the three ways a deserializer may hand a string over: transient &str, owned String, borrowed for 'de
        let got: [(&str, Result<ReprCString, VErr>); 3] = [
            ("transient str", ReprCString::deserialize(StrDeserializer::<VErr>::new(&s))),
            ("owned String", ReprCString::deserialize(StringDeserializer::<VErr>::new(s.clone()))),
            ("borrowed str", ReprCString::deserialize(BorrowedStrDeserializer::<VErr>::new(&s))),
        ];
        for (how, g) in got {
            n += 1;
            match g {
                Ok(g) if g == want && g.as_ref() == prefix => {}
                Ok(g) => bad("deserialize-content", format!("{:?} deserialised from a {} reads {:?}, built directly it reads {:?}", s, how, g.as_ref(), prefix)),
                Err(e) => bad("deserialize-fails", format!("{:?} handed over as a {}: {}", s, how, e)),
            }
        }
        // JSON: every string has a JSON spelling (escapes for control characters incl. NUL); parse from memory and from a reader
        let js = serde_json::to_string(&s).unwrap();
        n += 2;
        match serde_json::from_str::<ReprCString>(&js) {
            Ok(g) if g == want => {}
            Ok(g) => bad("deserialize-content", format!("JSON {} parsed from memory reads {:?}, expected {:?}", js, g.as_ref(), prefix)),
            Err(e) => bad("deserialize-fails", format!("JSON {} parsed from memory: {}", js, e)),
        }
        match serde_json::from_reader::<_, ReprCString>(js.as_bytes()) {
            Ok(g) if g == want => {}
            Ok(g) => bad("deserialize-content", format!("JSON {} parsed from a reader reads {:?}, expected {:?}", js, g.as_ref(), prefix)),
            Err(e) => bad("deserialize-fails", format!("JSON {} parsed from a reader: {}", js, e)),
        }
        // serialisation writes the text the string reads back as
        n += 1;
        let out = serde_json::to_string(&want).unwrap();
        if out != serde_json::to_string(&prefix).unwrap() { bad("serialize-content", format!("{:?} serialises as {}", s, out)); }
    }
    println!("{{\"k\":\"stat\",\"serde_cases\":{},\"violations_seen\":{}}}", n, viol);
    println!("{{\"k\":\"done\"}}");
}
