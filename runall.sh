#!/bin/bash
# runs every claimed check (quick by default) on the current tree and prints one line each
cd "$(dirname "$0")"
tier=${1:-quick}
ids=$(python3 -c "import json; print(' '.join(c['property_id'] for c in json.load(open('MANIFEST.json'))['checks']))")
for id in $ids; do
  s=$(date +%s)
  out=$(./check $id --tier $tier 2>&1); rc=$?
  echo "$id rc=$rc $(( $(date +%s) - s ))s $(echo "$out" | grep -E '^(OK|VIOLATION|INCONCLUSIVE|KNOWN-FINDING)' | head -3 | cut -c1-160 | tr '\n' '|')"
done
