//! C14 — ReprCString owns one well-formed NUL-terminated buffer.
//! Oracle: content comparison + exact live-block accounting from the tracking allocator
//! (natively), Miri/ASan/valgrind for out-of-bounds reads, leaks and free-size mismatch.
use crate::Args;
use cglue::repr_cstring::{ReprCStr, ReprCString};
use std::collections::hash_map::DefaultHasher;
use std::ffi::CString;
use std::hash::{Hash, Hasher};
use vmon::{alloc, Report, Rng};

const ALPHA: [&str; 5] = ["\0", "a", "é", "€", "😀"];

fn h<T: Hash>(t: &T) -> u64 {
    let mut s = DefaultHasher::new();
    t.hash(&mut s);
    s.finish()
}

fn raw_ptr(s: &ReprCString) -> *const u8 {
    // ReprCString is repr(transparent) over NonNull<c_char>
    unsafe { *(s as *const ReprCString as *const *const u8) }
}

#[derive(Clone, Copy, PartialEq, Debug)]
enum Via {
    Str,
    String,
    Bytes,
}

/// one construction + all observations.  `tracking`: the allocator table is live.
fn case(input: &str, via: Via, tracking: bool, rep: &mut Report) -> bool {
    let want: &str = input.split('\0').next().unwrap();
    let tag = format!("{:?} via {:?}", input, via);
    macro_rules! bad {
        ($sig:expr, $d:expr) => {{
            rep.violation($sig, &format!("input {}: {}", tag, $d), &tag);
            return false;
        }};
    }
    let bytes_owned: Vec<u8> = input.as_bytes().to_vec(); // exact-size heap copy: OOB reads are visible to Miri/ASan
    let string_owned: String = input.to_string();
    let consumed = (via == Via::String && string_owned.capacity() > 0) as usize; // From<String> frees its argument
    let seq0 = alloc::seq();
    let live0 = alloc::live_blocks();
    let s: ReprCString = match via {
        Via::Str => ReprCString::from(input),
        Via::String => ReprCString::from(string_owned),
        Via::Bytes => ReprCString::from(&bytes_owned[..]),
    };
    let live1 = alloc::live_blocks();
    let p = raw_ptr(&s);
    if tracking {
        let expect_live = live0 + 1 - consumed;
        if live1 != expect_live {
            let blocks = alloc::live_since(seq0);
            std::mem::forget(s);
            bad!("C14:not-exactly-one-allocation", format!("{} live blocks attributable to the value instead of 1: {:?}", live1 as i64 - live0 as i64 + consumed as i64, blocks.iter().map(|b| b.1).collect::<Vec<_>>()));
        }
        match alloc::lookup(p as usize) {
            Some((size, _)) if size == want.len() + 1 => {}
            other => {
                std::mem::forget(s);
                bad!("C14:buffer-size", format!("buffer block is {:?}, expected size {}", other, want.len() + 1));
            }
        }
    }
    // content
    let got: &str = s.as_ref();
    if got != want {
        let g = got.to_string();
        std::mem::forget(s);
        bad!("C14:content", format!("reads back {:?}, expected {:?}", g, want));
    }
    if &*s != want || format!("{}", s) != want || !format!("{:?}", s).contains(&format!("{:?}", want)) {
        bad!("C14:content", "Deref/Display/Debug disagree with content");
    }
    // Display honours the formatter exactly like the text itself (width, precision in characters, alignment)
    for prec in [0usize, 1, 2, 3, 5, 40] {
        let r = std::panic::catch_unwind(std::panic::AssertUnwindSafe(|| (format!("{:.*}", prec, s), format!("{:>9.*}", prec, s), format!("{:<7}", s))));
        let w = (format!("{:.*}", prec, want), format!("{:>9.*}", prec, want), format!("{:<7}", want));
        match r {
            Ok(g) if g == w => {}
            Ok(g) => bad!("C14:display-format", format!("formatting {:?} with precision {}: {:?}, the text itself gives {:?}", want, prec, g, w)),
            Err(_) => bad!("C14:display-format", format!("formatting {:?} with precision {} panicked", want, prec)),
        }
    }
    // terminator: exactly at len, and no NUL before it
    let term = unsafe { *p.add(want.len()) };
    if term != 0 {
        bad!("C14:terminator", format!("byte at len is {:#x}", term));
    }
    // eq / hash / clone by content
    let twin = ReprCString::from(want);
    if !(s == twin) || h(&s) != h(&twin) || h(&s) != h(&want) {
        bad!("C14:eq-hash", "equal content does not compare/hash equal");
    }
    let other = ReprCString::from(format!("{}x", want).as_str());
    if s == other {
        bad!("C14:eq-hash", "different content compares equal");
    }
    let c = s.clone();
    if c.as_ref() as &str != want || raw_ptr(&c) == p || !(c == s) {
        bad!("C14:clone", "clone is not an independent buffer with equal content");
    }
    // clone_from: whatever the destination held before, afterwards it owns a well-formed buffer with the source's text
    for prev in ["", "x", "a much longer previous value \u{e9}\u{20ac}"] {
        let mut dst = ReprCString::from(prev);
        dst.clone_from(&s);
        let dp = raw_ptr(&dst);
        if dst.as_ref() as &str != want || dp == p || unsafe { *dp.add(want.len()) } != 0 {
            bad!("C14:clone", format!("clone_from over {:?} does not read back the source", prev));
        }
        if tracking {
            match alloc::lookup(dp as usize) {
                Some((sz, _)) if sz == want.len() + 1 => {}
                other => bad!("C14:buffer-size", format!("after clone_from over {:?} the buffer block is {:?}, text needs {}", prev, other, want.len() + 1)),
            }
        }
        let nv = alloc::violation_count();
        drop(dst);
        if tracking && alloc::violation_count() != nv {
            bad!("C14:free-layout", format!("buffer written by clone_from over {:?} freed with another size than it was allocated with", prev));
        }
    }
    // Borrow<ReprCStr>
    {
        use std::borrow::Borrow;
        let b: &ReprCStr = s.borrow();
        if b.as_ref() != want || h(b) != h(&want) {
            bad!("C14:borrow", "Borrow<ReprCStr> reads different text");
        }
    }
    drop(c);
    drop(twin);
    drop(other);
    let nviol0 = alloc::violation_count();
    drop(s);
    if tracking {
        if alloc::violation_count() != nviol0 {
            bad!("C14:free-size-mismatch", format!("drop freed the buffer with a layout other than the allocated one: {:?}", alloc::violations().last()));
        }
        let left = alloc::live_since(seq0);
        if !left.is_empty() {
            bad!("C14:leak", format!("{} block(s) still live after drop, sizes {:?}", left.len(), left.iter().map(|b| b.1).collect::<Vec<_>>()));
        }
    }
    true
}

fn cstr_case(input: &str, rep: &mut Report) {
    let want: &str = input.split('\0').next().unwrap();
    let c = CString::new(want).unwrap();
    let r = ReprCStr::from(c.as_c_str());
    let r2 = r; // Copy
    if r.as_ref() != want || format!("{}", r2) != want || !format!("{:?}", r).contains(&format!("{:?}", want)) {
        rep.violation("C14:reprcstr-content", &format!("ReprCStr from {:?} reads {:?}", want, r.as_ref()), "");
    }
    for prec in [0usize, 1, 3, 40] {
        if format!("{:.*}|{:>8}", prec, r, r) != format!("{:.*}|{:>8}", prec, want, want) { rep.violation("C14:display-format", &format!("ReprCStr {:?} formatted with precision {}", want, prec), ""); }
    }
    let c2 = CString::new(want).unwrap();
    let r3 = ReprCStr::from(c2.as_c_str());
    if !(r == r3) || h(&r) != h(&r3) {
        rep.violation("C14:reprcstr-eq", "equal text not equal", "");
    }
    rep.add("reprcstr_cases", 1);
}

pub fn run(args: &Args, rep: &mut Report) {
    let tracking = cfg!(all(feature = "track-alloc", not(miri)));
    let maxsym = args.get("maxsym", 5) as u32;
    let shard = args.get("shard", 0);
    let shards = args.get("shards", 1);
    let mut idx = 0u64;
    let mut rng = Rng::new(args.seed);
    let mut per_via = [0u64; 3];
    let mut classes = [0u64; 5]; // empty, nul-free, nul-terminated, interior nul, (bytes) no terminator
    for len in 0..=maxsym {
        for mut code in 0..5u64.pow(len) {
            let mut s = String::new();
            for _ in 0..len {
                s.push_str(ALPHA[(code % 5) as usize]);
                code /= 5;
            }
            idx += 1;
            if idx % shards != shard {
                continue;
            }
            if s.is_empty() {
                classes[0] += 1;
            } else if !s.contains('\0') {
                classes[1] += 1;
                classes[4] += 1;
            } else if s.ends_with('\0') && !s[..s.len() - 1].contains('\0') {
                classes[2] += 1;
            } else {
                classes[3] += 1;
            }
            for (k, via) in [Via::Str, Via::String, Via::Bytes].iter().enumerate() {
                if case(&s, *via, tracking, rep) {
                    per_via[k] += 1;
                }
                rep.distinct(vmon::rng::mix(idx, k as u64));
            }
            if idx % 7 == 0 {
                cstr_case(&s, rep);
            }
            if idx == 100 {
                rep.sample("C14 input (over alphabet NUL,a,é,€,😀) built via &str, String and &[u8]", &format!("{:?}", s));
            }
        }
    }
    // longer random inputs
    for _ in 0..args.count {
        let n = rng.below(40);
        let mut s = String::new();
        for _ in 0..n {
            if rng.chance(1, 10) {
                s.push('\0');
            } else {
                s.push_str(ALPHA[1 + rng.below(4)]);
            }
        }
        for via in [Via::Str, Via::String, Via::Bytes] {
            case(&s, via, tracking, rep);
        }
        rep.add("random_inputs", 1);
    }
    rep.add("inputs_via_str", per_via[0]);
    rep.add("inputs_via_string", per_via[1]);
    rep.add("inputs_via_bytes", per_via[2]);
    rep.add("class_empty", classes[0]);
    rep.add("class_nul_free", classes[1]);
    rep.add("class_nul_terminated", classes[2]);
    rep.add("class_interior_nul", classes[3]);
    rep.add("class_bytes_without_terminator", classes[4]);
    rep.add("allocator_accounting", tracking as u64);
}
