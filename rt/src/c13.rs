//! C13 (library level) — integer result codes: zero means success and the output is initialised.
use crate::Args;
use cglue::result::{from_int_result, from_int_result_empty, into_int_out_result, into_int_result, IntError, IntResult};
use std::mem::MaybeUninit;
use std::num::NonZeroI32;
use vmon::{tracked, Report, Rng, Tracked};

fn io_code(code: i32, rep: &mut Report) -> bool {
    let e = std::io::Error::from_raw_os_error(code);
    let enc = e.into_int_err().get();
    if enc == 0 {
        rep.violation("C13:error-encodes-to-zero", &format!("io::Error::from_raw_os_error({}) encodes to 0", code), &format!("{}", code));
        return false;
    }
    if code != 0 && enc != code {
        rep.violation("C13:os-code-changed-by-encode", &format!("os error {} encodes to {}", code, enc), &format!("{}", code));
        return false;
    }
    if let Some(nz) = NonZeroI32::new(code) {
        let back = std::io::Error::from_int_err(nz);
        if back.raw_os_error() != Some(code) {
            rep.violation("C13:os-code-changed-by-decode", &format!("code {} decodes to {:?}", code, back.raw_os_error()), &format!("{}", code));
            return false;
        }
        // full round trip through the result helpers
        let r: Result<u32, std::io::Error> = Err(std::io::Error::from_raw_os_error(code));
        let mut slot = MaybeUninit::new(0xA5A5_A5A5u32);
        let c = into_int_out_result(r, &mut slot);
        let slot_now = unsafe { slot.assume_init() };
        let back: Result<u32, std::io::Error> = unsafe { from_int_result(c, MaybeUninit::uninit()) };
        match back {
            Err(e) if e.raw_os_error() == Some(code) && c == code && slot_now == 0xA5A5_A5A5 => {}
            other => {
                rep.violation("C13:err-roundtrip", &format!("code {}: int {} slot {:#x} decoded {:?}", code, c, slot_now, other.map_err(|e| e.raw_os_error())), &format!("{}", code));
                return false;
            }
        }
    }
    true
}

pub fn run(args: &Args, rep: &mut Report) {
    let mut rng = Rng::new(args.seed);
    rep.sample("C13 OS code case", "io::Error::from_raw_os_error(-22): encode must give -22, decode must give raw_os_error()==Some(-22); code 0 must encode to a non-zero value");
    rep.sample("C13 payload path", "Err(()) encoded with a live Tracked sentinel in the out slot: code != 0, sentinel neither dropped nor overwritten; decoder handed the slot must not drop it");
    let what = args.kv.get("what").map(|s| s.as_str()).unwrap_or("all").to_string();
    if what == "all" || what == "paths" {
        for _ in 0..args.get("rounds", 50) {
            payload_paths_scoped(rep);
        }
    }
    if what == "all" || what == "codes" {
        let span = args.get("span", 65536) as i64;
        let mut n = 0u64;
        for c in -span..=span {
            n += io_code(c as i32, rep) as u64;
        }
        for b in 0..32 {
            for d in [-1i64, 0, 1] {
                for sign in [1i64, -1] {
                    let v = sign * ((1i64 << b) + d);
                    if v >= i32::MIN as i64 && v <= i32::MAX as i64 {
                        n += io_code(v as i32, rep) as u64;
                    }
                }
            }
        }
        for c in [i32::MIN, i32::MAX, 0xffff, -0xffff, 0] {
            n += io_code(c, rep) as u64;
        }
        for _ in 0..args.count {
            n += io_code(rng.next() as i32, rep) as u64;
        }
        rep.add("os_codes_checked", n);
        // non-OS errors of every kind must still be non-zero
        use std::io::ErrorKind::*;
        let kinds = [NotFound, PermissionDenied, ConnectionRefused, ConnectionReset, ConnectionAborted, NotConnected, AddrInUse, AddrNotAvailable, BrokenPipe, AlreadyExists, WouldBlock, InvalidInput, InvalidData, TimedOut, WriteZero, Interrupted, Unsupported, UnexpectedEof, OutOfMemory, Other];
        for k in kinds {
            for e in [std::io::Error::from(k), std::io::Error::new(k, "custom")] {
                let enc = e.into_int_err().get();
                if enc == 0 {
                    rep.violation("C13:error-encodes-to-zero", &format!("non-OS io error {:?} encodes to 0", k), "");
                }
                let r: Result<(), std::io::Error> = Err(std::io::Error::from(k));
                if into_int_result(r) == 0 {
                    rep.violation("C13:error-encodes-to-zero", &format!("Err(io {:?}) -> 0", k), "");
                }
                rep.add("non_os_errors_checked", 1);
            }
        }
    }
    if what == "allcodes" {
        // exhaustive shard of the whole i32 range
        let shard = args.get("shard", 0);
        let shards = args.get("shards", 1);
        let per = (1u64 << 32) / shards;
        let lo = shard * per;
        let hi = if shard + 1 == shards { 1u64 << 32 } else { lo + per };
        let mut n = 0u64;
        for u in lo..hi {
            let code = u as u32 as i32;
            let e = std::io::Error::from_raw_os_error(code);
            let enc = e.into_int_err().get();
            let ok = enc != 0 && (code == 0 || enc == code) && (code == 0 || std::io::Error::from_int_err(NonZeroI32::new(code).unwrap()).raw_os_error() == Some(code));
            if !ok {
                io_code(code, rep);
            }
            n += 1;
        }
        rep.add("os_codes_checked_exhaustive", n);
    }
}

fn payload_paths_scoped(rep: &mut Report) {
    // The three Err-path sentinels are intentionally forgotten (MaybeUninit); account for them
    // by running the paths and then subtracting exactly those ids from the leak report.
    let mark = tracked::mark();
    payload_paths_inner(rep, mark);
}

fn payload_paths_inner(rep: &mut Report, mark: u64) {
    // run, but intercept the generic accounting: re-implemented here to know sentinel ids
    let mut sentinels = vec![];
    SENTINELS.with(|s| s.borrow_mut().clear());
    payload_paths_collect(rep);
    SENTINELS.with(|s| sentinels.extend(s.borrow().iter().copied()));
    let (leaked, multi) = tracked::since(mark);
    let _ = &sentinels;
    if !leaked.is_empty() || !multi.is_empty() {
        rep.violation("C13:payload-accounting", &format!("leaked {:?} double-dropped {:?}", leaked, multi), "");
    }
}

thread_local! {
    static SENTINELS: std::cell::RefCell<Vec<u64>> = std::cell::RefCell::new(vec![]);
}

fn payload_paths_collect(rep: &mut Report) {
    // the Err-path sentinels live inside a MaybeUninit and are intentionally never dropped
    macro_rules! chk {
        ($c:expr, $sig:expr, $d:expr) => {
            if !($c) {
                rep.violation($sig, $d, "");
            }
        };
    }
    {
        let t = Tracked::new();
        let id = t.id;
        let mut slot: MaybeUninit<Tracked> = MaybeUninit::uninit();
        let r: Result<Tracked, std::io::Error> = Ok(t);
        let code = r.into_int_out_result(&mut slot);
        chk!(code == 0, "C13:ok-nonzero", &format!("Ok encoded as {}", code));
        chk!(tracked::drops_of(id) == 0, "C13:ok-value-not-moved-once", "success value dropped during encode");
        if code == 0 {
            let back: Result<Tracked, std::io::Error> = unsafe { from_int_result(code, slot) };
            match back {
                Ok(v) => {
                    chk!(v.touch() == id, "C13:ok-value-wrong", "decoded success value is not the encoded one");
                    chk!(tracked::drops_of(id) == 0, "C13:ok-value-not-moved-once", "success value dropped during decode");
                    drop(v);
                    chk!(tracked::drops_of(id) == 1, "C13:ok-value-not-moved-once", "success value drop count != 1");
                }
                Err(_) => rep.violation("C13:ok-decoded-as-err", "code 0 decoded to Err", ""),
            }
        }
    }
    {
        // a success value that is zero-sized but still has a destructor, through both spellings of the encoder
        for form in 0..2 {
            let (n0, d0) = vmon::TrackedZst::counts();
            let mut slot: MaybeUninit<vmon::TrackedZst> = MaybeUninit::uninit();
            let r: Result<vmon::TrackedZst, ()> = Ok(vmon::TrackedZst::new());
            let code = if form == 0 { r.into_int_out_result(&mut slot) } else { into_int_out_result(r, &mut slot) };
            let (n1, d1) = vmon::TrackedZst::counts();
            chk!(code == 0, "C13:ok-nonzero", &format!("Ok(zero-sized) encoded as {}", code));
            chk!(n1 - n0 == 1 && d1 == d0, "C13:ok-value-not-moved-once", &format!("zero-sized success value: {} destroyed by the encoder (form {})", d1 - d0, form));
            if code == 0 {
                let back: Result<vmon::TrackedZst, ()> = unsafe { from_int_result(code, slot) };
                chk!(back.is_ok(), "C13:ok-decoded-as-err", "code 0 decoded to Err");
                drop(back);
                let (n2, d2) = vmon::TrackedZst::counts();
                chk!(n2 - n0 == 1 && d2 - d0 == 1, "C13:ok-value-not-moved-once", &format!("zero-sized success value: created {} destroyed {} over encode+decode (form {})", n2 - n0, d2 - d0, form));
            }
        }
    }
    for e in 0..3 {
        let sentinel = Tracked::new();
        let sid = sentinel.id;
        SENTINELS.with(|s| s.borrow_mut().push(sid));
        let mut slot = MaybeUninit::new(sentinel);
        let code = match e {
            0 => into_int_out_result::<Tracked, std::io::Error>(Err(std::io::Error::from_raw_os_error(5)), &mut slot),
            1 => into_int_out_result::<Tracked, ()>(Err(()), &mut slot),
            _ => into_int_out_result::<Tracked, std::fmt::Error>(Err(std::fmt::Error), &mut slot),
        };
        chk!(code != 0, "C13:error-encodes-to-zero", &format!("error kind {} encoded as 0", e));
        chk!(tracked::drops_of(sid) == 0, "C13:err-slot-touched", "encoding an Err dropped/overwrote the caller's slot");
        chk!(unsafe { slot.assume_init_ref() }.touch() == sid, "C13:err-slot-touched", "encoding an Err changed the caller's slot");
        if code != 0 {
            match e {
                0 => {
                    let back: Result<Tracked, std::io::Error> = unsafe { from_int_result(code, MaybeUninit::uninit()) };
                    chk!(matches!(&back, Err(x) if x.raw_os_error() == Some(5)), "C13:err-roundtrip", "io error 5 did not survive");
                }
                1 => {
                    let back: Result<Tracked, ()> = unsafe { from_int_result(code, MaybeUninit::uninit()) };
                    chk!(back.is_err(), "C13:err-decoded-as-ok", "() error decoded as Ok");
                }
                _ => {
                    let back: Result<Tracked, std::fmt::Error> = unsafe { from_int_result(code, MaybeUninit::uninit()) };
                    chk!(back.is_err(), "C13:err-decoded-as-ok", "fmt error decoded as Ok");
                }
            }
            // bitwise duplicate of the sentinel: the decoder gets the slot by value and must
            // forget it; we release the duplicate afterwards (a decoder that dropped the slot
            // turns this into a double drop)
            let dup: Tracked = unsafe { std::ptr::read(slot.as_ptr()) };
            let back: Result<Tracked, ()> = unsafe { from_int_result(code, slot) };
            chk!(back.is_err(), "C13:err-decoded-as-ok", "non-zero code decoded as Ok");
            if let Ok(v) = back {
                std::mem::forget(v);
            }
            chk!(tracked::drops_of(sid) == 0, "C13:err-slot-read", "decoder touched the slot although the code was non-zero");
            drop(dup);
        } else {
            unsafe { slot.assume_init_drop() };
        }
    }
    {
        let t = Tracked::new();
        let id = t.id;
        let r: Result<Tracked, ()> = Ok(t);
        chk!(r.into_int_result() == 0, "C13:ok-nonzero", "into_int_result(Ok) != 0");
        chk!(tracked::drops_of(id) == 1, "C13:ok-value-not-moved-once", "into_int_result(Ok(v)) must consume v exactly once");
        chk!(into_int_result::<u8, ()>(Err(())) != 0, "C13:error-encodes-to-zero", "() error must encode to non-zero");
        chk!(into_int_result::<u8, std::fmt::Error>(Err(std::fmt::Error)) != 0, "C13:error-encodes-to-zero", "fmt::Error");
        chk!(from_int_result_empty::<()>(0).is_ok(), "C13:ok-decoded-as-err", "from_int_result_empty(0)");
        chk!(from_int_result_empty::<()>(7).is_err(), "C13:err-decoded-as-ok", "from_int_result_empty(7)");
        chk!(from_int_result_empty::<()>(-1).is_err(), "C13:err-decoded-as-ok", "from_int_result_empty(-1)");
        chk!(matches!(from_int_result_empty::<std::io::Error>(-22), Err(e) if e.raw_os_error() == Some(-22)), "C13:os-code-changed-by-decode", "-22");
    }
    rep.add("payload_path_rounds", 1);
}
