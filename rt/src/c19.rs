//! C19 — a waker crossing the boundary wakes the original and is released once.
//! A future/stream/sink polled *through an opaque CGlue object* interprets a script over
//! waker slots; a counting Arc waker on the caller's side is the oracle.
use crate::Args;
use cglue::*;
use std::future::Future;
use std::pin::Pin;
use std::sync::atomic::{AtomicU64, Ordering};
use std::sync::{Arc, Mutex, Weak};
use std::task::{Context, Poll, Wake, Waker};
use vmon::{Report, Rng};

struct CountWaker {
    wakes: AtomicU64,
}
/// wake calls that arrived when no reference to the original was left (the harness keeps the
/// allocation - not the value - alive through a Weak, so this is observable without a crash)
static TOUCHED_AFTER_RELEASE: AtomicU64 = AtomicU64::new(0);
impl Wake for CountWaker {
    fn wake(self: Arc<Self>) {
        self.wakes.fetch_add(1, Ordering::SeqCst);
    }
    fn wake_by_ref(self: &Arc<Self>) {
        if Arc::strong_count(self) == 0 {
            TOUCHED_AFTER_RELEASE.fetch_add(1, Ordering::SeqCst);
            return;
        }
        self.wakes.fetch_add(1, Ordering::SeqCst);
    }
}

#[derive(Clone, Copy, Debug, PartialEq)]
pub enum Op {
    Clone(u8, u8),  // slot[j] = slot[i].clone(); slot 0 = the borrowed cx.waker()
    Wake(u8),       // by value
    WakeByRef(u8),
    Drop(u8),
    Send(u8, bool), // hand slot to a helper thread which wakes (true) or drops (false) it
    EndPoll,        // everything after this runs after poll() has returned
}

const SLOTS: usize = 4;

struct State {
    script: Vec<Op>,
    pc: usize,
    slots: [Option<Waker>; SLOTS],
    // model
    live: i64,      // foreign wakers alive (slots + in flight)
    wakes: u64,     // wake operations executed (synchronously)
    pending_thread_wakes: u64,
    threads: Vec<std::thread::JoinHandle<()>>,
    // oracle handles
    weak: Weak<CountWaker>,
    baseline: usize,
    problems: Vec<(String, String)>,
    executed: u64,
}

impl State {
    fn check(&mut self, at: &str) {
        if !self.threads.is_empty() {
            return; // counts are in flux until helper threads are joined
        }
        let c = self.weak.strong_count();
        let w = match self.weak.upgrade() {
            Some(a) => {
                let w = a.wakes.load(Ordering::SeqCst);
                drop(a);
                w
            }
            None => u64::MAX,
        };
        if w != self.wakes {
            self.problems.push(("C19:wake-count".into(), format!("{}: original woken {} times, {} wake operations executed", at, w, self.wakes)));
        }
        if c < self.baseline {
            self.problems.push(("C19:released-more-than-taken".into(), format!("{}: caller's waker count {} fell below its own {} handles ({} foreign wakers alive)", at, c, self.baseline, self.live)));
        } else if self.live == 0 && c != self.baseline {
            self.problems.push(("C19:clone-not-released".into(), format!("{}: no foreign waker alive but count is {} (baseline {})", at, c, self.baseline)));
        } else if self.live > 0 && c < self.baseline + 1 {
            self.problems.push(("C19:live-waker-holds-no-reference".into(), format!("{}: {} foreign wakers alive but count is {} (baseline {})", at, self.live, c, self.baseline)));
        }
    }

    fn join(&mut self) {
        for t in self.threads.drain(..) {
            let _ = t.join();
        }
        self.wakes += self.pending_thread_wakes;
        self.pending_thread_wakes = 0;
    }

    /// run ops until EndPoll (in_poll) or the end.  `cx0` is the borrowed waker inside a poll.
    fn interp(&mut self, cx0: Option<&Waker>) {
        while self.pc < self.script.len() {
            let op = self.script[self.pc];
            self.pc += 1;
            if self.problems.len() > 3 {
                return;
            }
            match op {
                Op::EndPoll => {
                    if cx0.is_some() {
                        return;
                    }
                }
                Op::Clone(i, j) => {
                    let (i, j) = (i as usize % SLOTS, 1 + (j as usize % (SLOTS - 1)));
                    let src: Option<Waker> = if i == 0 { cx0.map(|w| w.clone()) } else { self.slots[i].as_ref().map(|w| w.clone()) };
                    if let Some(w) = src {
                        self.live += 1;
                        if self.slots[j].take().is_some() {
                            self.live -= 1;
                        }
                        self.slots[j] = Some(w);
                        self.executed += 1;
                    }
                }
                Op::Wake(i) => {
                    let i = 1 + (i as usize % (SLOTS - 1));
                    if let Some(w) = self.slots[i].take() {
                        w.wake();
                        self.wakes += 1;
                        self.live -= 1;
                        self.executed += 1;
                    }
                }
                Op::WakeByRef(i) => {
                    let i = i as usize % SLOTS;
                    if i == 0 {
                        if let Some(w) = cx0 {
                            w.wake_by_ref();
                            self.wakes += 1;
                            self.executed += 1;
                        }
                    } else if let Some(w) = self.slots[i].as_ref() {
                        w.wake_by_ref();
                        self.wakes += 1;
                        self.executed += 1;
                    }
                }
                Op::Drop(i) => {
                    let i = 1 + (i as usize % (SLOTS - 1));
                    if let Some(w) = self.slots[i].take() {
                        drop(w);
                        self.live -= 1;
                        self.executed += 1;
                    }
                }
                Op::Send(i, wake) => {
                    let i = 1 + (i as usize % (SLOTS - 1));
                    if let Some(w) = self.slots[i].take() {
                        self.live -= 1;
                        if wake {
                            self.pending_thread_wakes += 1;
                        }
                        self.threads.push(std::thread::spawn(move || {
                            std::thread::yield_now();
                            if wake {
                                w.wake()
                            } else {
                                drop(w)
                            }
                        }));
                        self.executed += 1;
                    }
                }
            }
            self.check(&format!("after op #{} {:?}{}", self.pc - 1, op, if cx0.is_some() { " (inside poll)" } else { " (after poll)" }));
        }
    }
}

#[derive(Clone)]
struct Script(Arc<Mutex<State>>);

impl Future for Script {
    type Output = u32;
    fn poll(self: Pin<&mut Self>, cx: &mut Context<'_>) -> Poll<u32> {
        let mut st = self.0.lock().unwrap();
        st.interp(Some(cx.waker()));
        Poll::Ready(7)
    }
}
impl futures::Stream for Script {
    type Item = u32;
    fn poll_next(self: Pin<&mut Self>, cx: &mut Context<'_>) -> Poll<Option<u32>> {
        let mut st = self.0.lock().unwrap();
        st.interp(Some(cx.waker()));
        Poll::Ready(Some(9))
    }
}
impl futures::Sink<u32> for Script {
    type Error = u32;
    fn poll_ready(self: Pin<&mut Self>, cx: &mut Context<'_>) -> Poll<Result<(), u32>> {
        let mut st = self.0.lock().unwrap();
        st.interp(Some(cx.waker()));
        Poll::Ready(Ok(()))
    }
    fn start_send(self: Pin<&mut Self>, _item: u32) -> Result<(), u32> {
        Ok(())
    }
    // a flush that parks (the script decides what happens to the waker) and a close that completes
    fn poll_flush(self: Pin<&mut Self>, cx: &mut Context<'_>) -> Poll<Result<(), u32>> {
        let mut st = self.0.lock().unwrap();
        st.interp(Some(cx.waker()));
        Poll::Pending
    }
    fn poll_close(self: Pin<&mut Self>, cx: &mut Context<'_>) -> Poll<Result<(), u32>> {
        let mut st = self.0.lock().unwrap();
        st.interp(Some(cx.waker()));
        Poll::Ready(Ok(()))
    }
}

#[derive(Clone, Copy, Debug)]
pub enum Kind {
    Future,
    Stream,
    Sink,
    SinkFlush,
    SinkClose,
}

/// returns number of ops that actually executed
pub fn run_script(script: &[Op], kind: Kind, orphan: bool, rep: &mut Report) -> u64 {
    let arc = Arc::new(CountWaker { wakes: AtomicU64::new(0) });
    let weak = Arc::downgrade(&arc);
    let waker = Waker::from(arc.clone());
    const NONE: Option<Waker> = None;
    let st = Arc::new(Mutex::new(State {
        script: script.to_vec(),
        pc: 0,
        slots: [NONE; SLOTS],
        live: 0,
        wakes: 0,
        pending_thread_wakes: 0,
        threads: vec![],
        weak: weak.clone(),
        baseline: 2,
        problems: vec![],
        executed: 0,
    }));
    let fut = Script(st.clone());
    let tag = format!("{:?} via {:?}{}", script, kind, if orphan { " +orphan" } else { "" });
    // ---- the poll, through the opaque object
    {
        let mut cx = Context::from_waker(&waker);
        match kind {
            Kind::Future => {
                let mut obj = trait_obj!(fut as Future);
                match Pin::new(&mut obj).poll(&mut cx) {
                    Poll::Ready(7) => {}
                    other => rep.violation("C19:poll-result", &format!("{}: future returned {:?}", tag, other), &tag),
                }
            }
            Kind::Stream => {
                use futures::Stream;
                let mut obj = trait_obj!(fut as Stream);
                match Pin::new(&mut obj).poll_next(&mut cx) {
                    Poll::Ready(Some(9)) => {}
                    other => rep.violation("C19:poll-result", &format!("{}: stream returned {:?}", tag, other), &tag),
                }
            }
            Kind::Sink => {
                use futures::Sink;
                let mut obj = trait_obj!(fut as Sink);
                match Pin::new(&mut obj).poll_ready(&mut cx) {
                    Poll::Ready(Ok(())) => {}
                    other => rep.violation("C19:poll-result", &format!("{}: sink returned {:?}", tag, other), &tag),
                }
            }
            Kind::SinkFlush => {
                use futures::Sink;
                let mut obj = trait_obj!(fut as Sink);
                match Pin::new(&mut obj).poll_flush(&mut cx) {
                    Poll::Pending => {}
                    other => rep.violation("C19:poll-result", &format!("{}: parked flush returned {:?}", tag, other), &tag),
                }
            }
            Kind::SinkClose => {
                use futures::Sink;
                let mut obj = trait_obj!(fut as Sink);
                match Pin::new(&mut obj).poll_close(&mut cx) {
                    Poll::Ready(Ok(())) => {}
                    other => rep.violation("C19:poll-result", &format!("{}: close returned {:?}", tag, other), &tag),
                }
            }
        }
    }
    let mut s = st.lock().unwrap();
    s.join();
    s.check("after poll returned");
    // ---- post-poll part of the script, on retained wakers
    s.interp(None);
    s.join();
    s.check("after the script");
    if orphan && s.live > 0 && s.problems.is_empty() {
        // the caller lets go of its own handles while foreign wakers are retained: they must
        // keep the original alive and still wake it
        drop(waker);
        drop(arc);
        s.baseline = 0;
        s.check("after the caller dropped its own handles");
        for i in 1..SLOTS {
            if let Some(w) = s.slots[i].as_ref() {
                w.wake_by_ref();
                s.wakes += 1;
                s.check("wake_by_ref on a retained waker after the caller let go");
            }
        }
        for i in 1..SLOTS {
            if let Some(w) = s.slots[i].take() {
                if i % 2 == 0 {
                    // the last wake has nothing to compare against once the original is gone
                    let last = s.live == 1;
                    w.wake();
                    s.live -= 1;
                    if !last {
                        s.wakes += 1;
                        s.check("wake on a retained waker after the caller let go");
                    }
                } else {
                    drop(w);
                    s.live -= 1;
                    if s.live > 0 {
                        s.check("drop of a retained waker after the caller let go");
                    }
                }
            }
        }
        if weak.strong_count() != 0 {
            s.problems.push(("C19:clone-not-released".into(), format!("all wakers gone, original still has {} references", weak.strong_count())));
        }
        let t = TOUCHED_AFTER_RELEASE.swap(0, Ordering::SeqCst);
        if t != 0 {
            s.problems.push(("C19:original-touched-after-last-release".into(), format!("the caller's waker was woken {} time(s) after its last reference had been released", t)));
        }
    } else {
        for i in 1..SLOTS {
            if s.slots[i].take().is_some() {
                s.live -= 1;
                s.check("final drop of a retained waker");
            }
        }
        s.check("all foreign wakers gone");
        drop(waker);
        if weak.strong_count() != 1 && s.problems.is_empty() {
            s.problems.push(("C19:clone-not-released".into(), format!("after the caller dropped its waker, count is {} (want 1)", weak.strong_count())));
        }
        drop(arc);
    }
    let ex = s.executed;
    let mut seen = std::collections::HashSet::new();
    for (sig, d) in s.problems.drain(..) {
        if seen.insert(sig.clone()) {
            rep.violation(&sig, &format!("script {}: {}", tag, d), &tag);
        }
    }
    rep.add("scripts", 1);
    rep.add("ops_executed", ex);
    ex
}

fn alphabet() -> Vec<Op> {
    let mut a = vec![];
    for i in 0..3u8 {
        for j in 0..2u8 {
            a.push(Op::Clone(i, j));
        }
    }
    for i in 0..2u8 {
        a.push(Op::Wake(i));
        a.push(Op::Drop(i));
    }
    for i in 0..3u8 {
        a.push(Op::WakeByRef(i));
    }
    a.push(Op::EndPoll);
    a
}

/// A family of handles that share one foreign-side waker (a = cx.waker().clone(); b = a.clone(); ...),
/// retained after the poll and released *at the same moment* from several threads (drop or wake by
/// value).  Whatever the interleaving, the caller's waker must end with its own two references
/// and must have been woken once per wake.
struct Grab(Arc<Mutex<Vec<Waker>>>, usize);
impl Future for Grab {
    type Output = u32;
    fn poll(self: Pin<&mut Self>, cx: &mut Context<'_>) -> Poll<u32> {
        let a = cx.waker().clone();
        let mut v = self.0.lock().unwrap();
        for _ in 1..self.1 {
            v.push(a.clone());
        }
        v.push(a);
        Poll::Ready(7)
    }
}

fn race_release(rounds: u64, family: usize, seed: u64, rep: &mut Report) {
    use std::sync::atomic::AtomicBool;
    for r in 0..rounds {
        let arc = Arc::new(CountWaker { wakes: AtomicU64::new(0) });
        let weak = Arc::downgrade(&arc);
        let waker = Waker::from(arc.clone());
        let store = Arc::new(Mutex::new(vec![]));
        {
            let mut cx = Context::from_waker(&waker);
            let mut obj = trait_obj!(Grab(store.clone(), family) as Future);
            let _ = Pin::new(&mut obj).poll(&mut cx);
        }
        let handles: Vec<Waker> = std::mem::take(&mut *store.lock().unwrap());
        let go = Arc::new(AtomicBool::new(false));
        let pattern = seed.wrapping_add(r);
        let mut want_wakes = 0;
        let ths: Vec<_> = handles
            .into_iter()
            .enumerate()
            .map(|(i, w)| {
                let go = go.clone();
                let wake = (pattern >> i) & 1 == 1;
                want_wakes += wake as u64;
                std::thread::spawn(move || {
                    while !go.load(Ordering::Acquire) {
                        std::hint::spin_loop();
                    }
                    if wake {
                        w.wake()
                    } else {
                        drop(w)
                    }
                })
            })
            .collect();
        go.store(true, Ordering::Release);
        for t in ths {
            let _ = t.join();
        }
        let tag = format!("race round {} family {} pattern {:#b}", r, family, pattern & ((1 << family) - 1));
        let c = weak.strong_count();
        if c != 2 {
            rep.violation(if c > 2 { "C19:clone-not-released" } else { "C19:live-waker-holds-no-reference" }, &format!("{}: after all {} handles were released concurrently the caller's waker has {} references (its own 2 expected)", tag, family, c), &tag);
            return;
        }
        let got = arc.wakes.load(Ordering::SeqCst);
        if got != want_wakes {
            rep.violation("C19:wake-count", &format!("{}: {} wakes delivered, {} issued", tag, got, want_wakes), &tag);
            return;
        }
        let t = TOUCHED_AFTER_RELEASE.swap(0, Ordering::SeqCst);
        if t != 0 {
            rep.violation("C19:original-touched-after-last-release", &format!("{}: woken {} time(s) after its last reference was released", tag, t), &tag);
            return;
        }
        rep.add("race_rounds", 1);
    }
}

/// A caller's waker whose `clone()` is not a bit copy of itself: a borrowed waker (no reference count,
/// its own vtable) that upgrades to an owned one when cloned.  What crosses the boundary and is retained
/// must be the *clone* the foreign side asked for: waking it wakes the owned waker, releasing it releases
/// the owned waker.
mod upgrade {
    use super::*;
    use std::sync::atomic::AtomicI64;
    use std::task::{RawWaker, RawWakerVTable};
    pub struct Owner {
        pub owned_live: AtomicI64,
        pub owned_wakes: AtomicU64,
        pub borrowed_wakes: AtomicU64,
        pub borrowed_drops: AtomicU64,
    }
    unsafe fn o<'a>(p: *const ()) -> &'a Owner { &*(p as *const Owner) }
    unsafe fn b_clone(p: *const ()) -> RawWaker { o(p).owned_live.fetch_add(1, Ordering::SeqCst); RawWaker::new(p, &OWNED) }
    unsafe fn b_wake(p: *const ()) { o(p).borrowed_wakes.fetch_add(1, Ordering::SeqCst); }
    unsafe fn b_drop(p: *const ()) { o(p).borrowed_drops.fetch_add(1, Ordering::SeqCst); }
    unsafe fn o_clone(p: *const ()) -> RawWaker { o(p).owned_live.fetch_add(1, Ordering::SeqCst); RawWaker::new(p, &OWNED) }
    unsafe fn o_wake(p: *const ()) { o(p).owned_wakes.fetch_add(1, Ordering::SeqCst); o(p).owned_live.fetch_sub(1, Ordering::SeqCst); }
    unsafe fn o_wake_by_ref(p: *const ()) { o(p).owned_wakes.fetch_add(1, Ordering::SeqCst); }
    unsafe fn o_drop(p: *const ()) { o(p).owned_live.fetch_sub(1, Ordering::SeqCst); }
    pub static BORROWED: RawWakerVTable = RawWakerVTable::new(b_clone, b_wake, b_wake, b_drop);
    pub static OWNED: RawWakerVTable = RawWakerVTable::new(o_clone, o_wake, o_wake_by_ref, o_drop);

    pub fn run(rep: &mut Report) {
        for variant in 0..6u32 {
            let owner = Arc::new(Owner { owned_live: AtomicI64::new(0), owned_wakes: AtomicU64::new(0), borrowed_wakes: AtomicU64::new(0), borrowed_drops: AtomicU64::new(0) });
            let borrowed = std::mem::ManuallyDrop::new(unsafe { Waker::from_raw(RawWaker::new(Arc::as_ptr(&owner) as *const (), &BORROWED)) });
            let store = Arc::new(Mutex::new(vec![]));
            let family = 1 + (variant as usize % 2);
            {
                let mut cx = Context::from_waker(&borrowed);
                let mut obj = trait_obj!(Grab(store.clone(), family) as Future);
                let _ = Pin::new(&mut obj).poll(&mut cx);
            }
            let handles: Vec<Waker> = std::mem::take(&mut *store.lock().unwrap());
            let tag = format!("upgrade-on-clone waker, variant {}", variant);
            let live = owner.owned_live.load(Ordering::SeqCst);
            if live != 1 {
                rep.violation(if live > 1 { "C19:clone-not-released" } else { "C19:live-waker-holds-no-reference" }, &format!("{}: {} retained foreign-side handles sharing one clone; the caller's waker counts {} owned clones alive (1 expected)", tag, handles.len(), live), &tag);
                continue;
            }
            let mut want = 0;
            for (i, h) in handles.into_iter().enumerate() {
                match (variant / 2 + i as u32) % 3 {
                    0 => { h.wake_by_ref(); want += 1; drop(h); }
                    1 => { h.wake(); want += 1; }
                    _ => drop(h),
                }
            }
            let (ow, bw, live) = (owner.owned_wakes.load(Ordering::SeqCst), owner.borrowed_wakes.load(Ordering::SeqCst), owner.owned_live.load(Ordering::SeqCst));
            if ow != want || bw != 0 {
                rep.violation("C19:wake-reached-another-waker", &format!("{}: {} wakes issued on retained handles; the clone the foreign side took was woken {} times, the borrowed original {} times", tag, want, ow, bw), &tag);
            }
            if live != 0 {
                rep.violation("C19:clone-not-released", &format!("{}: after all foreign-side handles are gone the caller's waker still counts {} owned clones", tag, live), &tag);
            }
            rep.add("upgrade_waker_cases", 1);
        }
    }
}

/// More callers' wakers and call shapes: a waker whose data pointer is null (an executor that keeps the task
/// slot number in the pointer uses null for slot 0), and an opaque future that polls another opaque future
/// with the context it was given (the inner wake travels through two borrowed wakers, one inside the other).
mod shapes {
    use super::*;
    use std::task::{RawWaker, RawWakerVTable};
    static SLOT_WAKES: [AtomicU64; 4] = [AtomicU64::new(0), AtomicU64::new(0), AtomicU64::new(0), AtomicU64::new(0)];
    static SLOT_LIVE: [AtomicU64; 4] = [AtomicU64::new(0), AtomicU64::new(0), AtomicU64::new(0), AtomicU64::new(0)];
    unsafe fn s_clone(p: *const ()) -> RawWaker { SLOT_LIVE[p as usize].fetch_add(1, Ordering::SeqCst); RawWaker::new(p, &SLOT_VT) }
    unsafe fn s_wake(p: *const ()) { SLOT_WAKES[p as usize].fetch_add(1, Ordering::SeqCst); SLOT_LIVE[p as usize].fetch_sub(1, Ordering::SeqCst); }
    unsafe fn s_wake_by_ref(p: *const ()) { SLOT_WAKES[p as usize].fetch_add(1, Ordering::SeqCst); }
    unsafe fn s_drop(p: *const ()) { SLOT_LIVE[p as usize].fetch_sub(1, Ordering::SeqCst); }
    static SLOT_VT: RawWakerVTable = RawWakerVTable::new(s_clone, s_wake, s_wake_by_ref, s_drop);

    /// wakes the borrowed waker by reference `k` times, takes one clone, wakes it by reference and by value
    struct Waky(u32);
    impl Future for Waky {
        type Output = u32;
        fn poll(self: Pin<&mut Self>, cx: &mut Context<'_>) -> Poll<u32> {
            for _ in 0..self.0 {
                cx.waker().wake_by_ref();
            }
            let c = cx.waker().clone();
            c.wake_by_ref();
            c.wake();
            Poll::Ready(7)
        }
    }
    /// ready on the second poll; asks to be polled again through the borrowed waker (yield once)
    struct YieldOnce(bool);
    impl Future for YieldOnce {
        type Output = u32;
        fn poll(mut self: Pin<&mut Self>, cx: &mut Context<'_>) -> Poll<u32> {
            if self.0 {
                Poll::Ready(9)
            } else {
                self.0 = true;
                cx.waker().wake_by_ref();
                Poll::Pending
            }
        }
    }
    /// polls the opaque future it owns with the context it is given
    struct Through<F>(F);
    impl<F: Future<Output = u32> + Unpin> Future for Through<F> {
        type Output = u32;
        fn poll(mut self: Pin<&mut Self>, cx: &mut Context<'_>) -> Poll<u32> {
            Pin::new(&mut self.0).poll(cx)
        }
    }

    pub fn run(rep: &mut Report) {
        // slot-numbered wakers, slot 0 = null data pointer
        for slot in 0..4usize {
            for k in 0..3u32 {
                let (w0, l0) = (SLOT_WAKES[slot].load(Ordering::SeqCst), SLOT_LIVE[slot].load(Ordering::SeqCst));
                let waker = std::mem::ManuallyDrop::new(unsafe { Waker::from_raw(RawWaker::new(slot as *const (), &SLOT_VT)) });
                {
                    let mut cx = Context::from_waker(&waker);
                    let mut obj = trait_obj!(Waky(k) as Future);
                    let _ = Pin::new(&mut obj).poll(&mut cx);
                }
                let (w, l) = (SLOT_WAKES[slot].load(Ordering::SeqCst) - w0, SLOT_LIVE[slot].load(Ordering::SeqCst) as i64 - l0 as i64);
                let tag = format!("waker with data pointer {:#x}, {} wakes by reference on the borrowed waker + 2 on a clone", slot, k);
                if w != k as u64 + 2 {
                    rep.violation("C19:wake-count", &format!("{}: {} wakes reached the caller's waker, {} were issued", tag, w, k + 2), &tag);
                }
                if l != 0 {
                    rep.violation("C19:clone-not-released", &format!("{}: clones outstanding after the poll: {}", tag, l), &tag);
                }
                rep.add("slot_waker_cases", 1);
            }
        }
        // an opaque future inside an opaque future (and one more level)
        for depth in 1..=3u32 {
            let arc = Arc::new(CountWaker { wakes: AtomicU64::new(0) });
            let waker = Waker::from(arc.clone());
            let mut cx = Context::from_waker(&waker);
            let tag = format!("yield-once future wrapped in {} opaque object(s)", depth);
            let inner = trait_obj!(YieldOnce(false) as Future);
            let (first, second) = match depth {
                1 => { let mut o = inner; (Pin::new(&mut o).poll(&mut cx), Pin::new(&mut o).poll(&mut cx)) }
                2 => { let mut o = trait_obj!(Through(inner) as Future); (Pin::new(&mut o).poll(&mut cx), Pin::new(&mut o).poll(&mut cx)) }
                _ => { let mid = trait_obj!(Through(inner) as Future); let mut o = trait_obj!(Through(mid) as Future); (Pin::new(&mut o).poll(&mut cx), Pin::new(&mut o).poll(&mut cx)) }
            };
            let wakes = arc.wakes.load(Ordering::SeqCst);
            if first != Poll::Pending || second != Poll::Ready(9) {
                rep.violation("C19:poll-result", &format!("{}: polls returned {:?} then {:?}", tag, first, second), &tag);
            }
            if wakes != 1 {
                rep.violation("C19:wake-count", &format!("{}: the inner future woke its context once during the first poll, the caller's waker saw {} wakes", tag, wakes), &tag);
            }
            drop(waker);
            if Arc::strong_count(&arc) != 1 {
                rep.violation("C19:clone-not-released", &format!("{}: {} references to the caller's waker left", tag, Arc::strong_count(&arc) - 1), &tag);
            }
            rep.add("nested_future_cases", 1);
        }
    }
}

pub fn run(args: &Args, rep: &mut Report) {
    let mut rng = Rng::new(args.seed);
    if args.has("upgrade") {
        upgrade::run(rep);
        shapes::run(rep);
        return;
    }
    if args.has("race") {
        let rounds = args.get("race", 1000);
        race_release(rounds, 2, args.seed, rep);
        race_release(rounds / 2, 3, args.seed ^ 0x55, rep);
        return;
    }
    let depth = args.get("depth", 4) as u32;
    let alpha = alphabet();
    let k = alpha.len() as u64;
    let kinds = [Kind::Future, Kind::Stream, Kind::Sink, Kind::SinkFlush, Kind::SinkClose];
    let what = args.kv.get("what").map(|s| s.as_str()).unwrap_or("all").to_string();
    let shard = args.get("shard", 0);
    let shards = args.get("shards", 1);
    if what == "all" || what == "exhaustive" {
        let mut idx = 0u64;
        for len in 1..=depth {
            for mut code in 0..k.pow(len) {
                idx += 1;
                if idx % shards != shard {
                    continue;
                }
                let mut s = Vec::with_capacity(len as usize);
                for _ in 0..len {
                    s.push(alpha[(code % k) as usize]);
                    code /= k;
                }
                // scripts that cannot start (first op needs a slot that is empty) still run: no-ops
                let kind = kinds[(idx % 5) as usize];
                if run_script(&s, kind, idx % 2 == 0, rep) > 0 {
                    rep.add("scripts_nontrivial", 1);
                    rep.distinct(idx);
                }
                if idx == 3000 {
                    rep.sample("C19 waker script (slot 0 = borrowed cx.waker(); EndPoll splits inside/after poll)", &format!("{:?}", s));
                }
            }
        }
        rep.add("exhaustive_depth", depth as u64);
    }
    if what == "all" || what == "random" {
        let threaded = !args.has("nothreads");
        for n in 0..args.count {
            let len = 1 + rng.below(args.get("maxlen", 40) as usize);
            let mut s = Vec::with_capacity(len);
            for _ in 0..len {
                let op = match rng.below(if threaded { 12 } else { 10 }) {
                    0 | 1 | 2 => Op::Clone(rng.below(4) as u8, rng.below(3) as u8),
                    3 | 4 => Op::Wake(rng.below(3) as u8),
                    5 | 6 => Op::WakeByRef(rng.below(4) as u8),
                    7 => Op::Drop(rng.below(3) as u8),
                    8 => Op::EndPoll,
                    9 => Op::Clone(0, rng.below(3) as u8),
                    _ => Op::Send(rng.below(3) as u8, rng.chance(1, 2)),
                };
                s.push(op);
            }
            if run_script(&s, kinds[(n % 5) as usize], rng.chance(1, 2), rep) > 0 {
                rep.add("scripts_nontrivial", 1);
                let mut dg = 0;
                for o in &s {
                    dg = vmon::rng::mix(dg, format!("{:?}", o).len() as u64 ^ (match o { Op::Clone(a, b) => (*a as u64) << 8 | *b as u64, Op::Wake(a) | Op::WakeByRef(a) | Op::Drop(a) => 100 + *a as u64, Op::Send(a, b) => 200 + *a as u64 * 2 + *b as u64, Op::EndPoll => 999 }));
                }
                rep.distinct(dg);
            }
        }
    }
}
