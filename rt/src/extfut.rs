//! The ::ext futures traits (Sink, Stream) as opaque objects against direct calls: every poll function must
//! reach the method of the same name, return what it returned, and leave the value in the same state.
use crate::Args;
use cglue::*;
use futures::{Sink, Stream};
use std::pin::Pin;
use std::sync::Arc;
use std::task::{Context, Poll, Wake, Waker};
use vmon::{Report, Rng};

struct Nop;
impl Wake for Nop {
    fn wake(self: Arc<Self>) {}
}

#[derive(Clone, Debug, PartialEq)]
struct SinkState {
    log: Vec<(&'static str, i64)>,
    items: Vec<u32>,
    closed: bool,
    flushed: u32,
    close_plan: u8, // 0 Ok, 1 Err, 2 Pending once then Ok
    flush_plan: u8, // 0 Ok, 1 Err
    pending_left: u8,
}
/// the state lives outside the sink so that it stays observable when the sink is inside a boxed object
struct RecSink(Arc<std::sync::Mutex<SinkState>>);
impl Sink<u32> for RecSink {
    type Error = i64;
    fn poll_ready(self: Pin<&mut Self>, _: &mut Context<'_>) -> Poll<Result<(), i64>> {
        let mut s = self.0.lock().unwrap();
        s.log.push(("ready", 0));
        if s.closed { Poll::Ready(Err(-9)) } else { Poll::Ready(Ok(())) }
    }
    fn start_send(self: Pin<&mut Self>, item: u32) -> Result<(), i64> {
        let mut s = self.0.lock().unwrap();
        s.log.push(("send", item as i64));
        if s.closed { return Err(7); }
        s.items.push(item);
        Ok(())
    }
    fn poll_flush(self: Pin<&mut Self>, _: &mut Context<'_>) -> Poll<Result<(), i64>> {
        let mut s = self.0.lock().unwrap();
        s.log.push(("flush", 0));
        s.flushed += 1;
        if s.flush_plan == 1 { Poll::Ready(Err(i64::MAX)) } else { Poll::Ready(Ok(())) }
    }
    fn poll_close(self: Pin<&mut Self>, _: &mut Context<'_>) -> Poll<Result<(), i64>> {
        let mut s = self.0.lock().unwrap();
        s.log.push(("close", 0));
        match s.close_plan {
            1 => Poll::Ready(Err(i64::MIN)),
            2 if s.pending_left > 0 => { s.pending_left -= 1; Poll::Pending }
            _ => { s.closed = true; Poll::Ready(Ok(())) }
        }
    }
}

#[derive(Clone, Debug, PartialEq)]
struct StreamState { left: Vec<Option<u32>>, polls: u32 }
struct RecStream(Arc<std::sync::Mutex<StreamState>>);
impl Stream for RecStream {
    type Item = u32;
    fn poll_next(self: Pin<&mut Self>, _: &mut Context<'_>) -> Poll<Option<u32>> {
        let mut s = self.0.lock().unwrap();
        s.polls += 1;
        if s.left.is_empty() { return Poll::Ready(None); }
        match s.left.remove(0) { Some(v) => Poll::Ready(Some(v)), None => Poll::Pending }
    }
}

fn drive_sink<S: Sink<u32, Error = i64> + Unpin>(s: &mut S, ops: &[u8], cx: &mut Context<'_>) -> Vec<String> {
    let mut out = vec![];
    for (i, op) in ops.iter().enumerate() {
        out.push(match op % 4 {
            0 => format!("{:?}", Pin::new(&mut *s).poll_ready(cx)),
            1 => format!("{:?}", Pin::new(&mut *s).start_send(100 + i as u32)),
            2 => format!("{:?}", Pin::new(&mut *s).poll_flush(cx)),
            _ => format!("{:?}", Pin::new(&mut *s).poll_close(cx)),
        });
    }
    out
}

pub fn run(args: &Args, rep: &mut Report) {
    let pid = args.kv.get("pid").cloned().unwrap_or_else(|| "C01".to_string());
    let mut rng = Rng::new(args.seed);
    let waker = Waker::from(Arc::new(Nop));
    let mut cx = Context::from_waker(&waker);
    // every op sequence up to length 4, the canonical ready/send/flush/close/ready/send one, and seeded longer ones
    let mut seqs: Vec<Vec<u8>> = vec![vec![0, 1, 2, 3, 0, 1], vec![0, 1, 3, 3, 1], vec![3, 2, 3]];
    for len in 1..=4u32 {
        for mut code in 0..4u32.pow(len) {
            let mut v = vec![];
            for _ in 0..len { v.push((code % 4) as u8); code /= 4; }
            seqs.push(v);
        }
    }
    for _ in 0..args.count.min(2000) {
        seqs.push((0..1 + rng.below(12)).map(|_| rng.below(4) as u8).collect());
    }
    for ops in &seqs {
        for (close_plan, flush_plan) in [(0u8, 0u8), (1, 0), (2, 0), (0, 1), (1, 1)] {
            let fresh = SinkState { log: vec![], items: vec![], closed: false, flushed: 0, close_plan, flush_plan, pending_left: 1 };
            let dstate = Arc::new(std::sync::Mutex::new(fresh.clone()));
            let mut direct = RecSink(dstate.clone());
            let want = drive_sink(&mut direct, ops, &mut cx);
            let ostate = Arc::new(std::sync::Mutex::new(fresh.clone()));
            let got = {
                let mut obj = trait_obj!(RecSink(ostate.clone()) as Sink);
                drive_sink(&mut obj, ops, &mut cx)
            };
            if got != want {
                rep.violation(&format!("{}:ext-sink-result", pid), &format!("Sink ops {:?} (0 ready,1 send,2 flush,3 close; close plan {}, flush plan {}) through an object returned {:?}, direct calls returned {:?}", ops, close_plan, flush_plan, got, want), "");
            } else if *ostate.lock().unwrap() != *dstate.lock().unwrap() {
                rep.violation(&format!("{}:ext-sink-state", pid), &format!("Sink ops {:?} through an object left the sink as {:?}, direct calls leave {:?}", ops, ostate.lock().unwrap(), dstate.lock().unwrap()), "");
            }
            rep.add("sink_sequences", 1);
        }
    }
    for n in 0..200u32 {
        let items: Vec<Option<u32>> = (0..(n % 7)).map(|i| if (n + i) % 3 == 0 { None } else { Some(n * 10 + i) }).collect();
        let fresh = StreamState { left: items, polls: 0 };
        let (ds, os) = (Arc::new(std::sync::Mutex::new(fresh.clone())), Arc::new(std::sync::Mutex::new(fresh.clone())));
        let mut direct = RecStream(ds.clone());
        let k = 2 + (n % 9) as usize;
        let want: Vec<String> = (0..k).map(|_| format!("{:?}", Pin::new(&mut direct).poll_next(&mut cx))).collect();
        let got: Vec<String> = { let mut obj = trait_obj!(RecStream(os.clone()) as Stream); (0..k).map(|_| format!("{:?}", Pin::new(&mut obj).poll_next(&mut cx))).collect() };
        if got != want || *os.lock().unwrap() != *ds.lock().unwrap() {
            rep.violation(&format!("{}:ext-stream", pid), &format!("Stream polled {} times through an object: {:?}, direct {:?}", k, got, want), "");
        }
        rep.add("stream_sequences", 1);
    }
}
