//! C12 — slice views and C option/result/tuple types are lossless.
use crate::Args;
use cglue::option::COption;
use cglue::result::CResult;
use cglue::slice::{CSliceMut, CSliceRef};
use cglue::tuple::{CTup1, CTup2, CTup3, CTup4};
use std::convert::TryFrom;
use vmon::{tracked, Report, Rng, Tracked};

#[repr(C)]
#[derive(Clone, Copy, Debug, PartialEq, Eq)]
struct S3([u8; 3]);

trait E: Copy + PartialEq + std::fmt::Debug {
    const NAME: &'static str;
    fn make(r: &mut Rng) -> Self;
}
impl E for u8 {
    const NAME: &'static str = "u8";
    fn make(r: &mut Rng) -> Self {
        r.next() as u8
    }
}
impl E for u64 {
    const NAME: &'static str = "u64";
    fn make(r: &mut Rng) -> Self {
        r.edgy()
    }
}
impl E for () {
    const NAME: &'static str = "zst";
    fn make(_: &mut Rng) -> Self {}
}
impl E for S3 {
    const NAME: &'static str = "s3";
    fn make(r: &mut Rng) -> Self {
        let x = r.next();
        S3([x as u8, (x >> 8) as u8, (x >> 16) as u8])
    }
}

fn slices<T: E>(rng: &mut Rng, maxlen: usize, rep: &mut Report) {
    for len in 0..=maxlen {
        for off in [0usize, 1, 3] {
            let mut buf: Vec<T> = (0..len + off).map(|_| T::make(rng)).collect();
            let orig = buf.clone();
            let s: &[T] = &buf[off..];
            let (p, l) = (s.as_ptr(), s.len());
            macro_rules! bad {
                ($sig:expr, $d:expr) => {{
                    rep.violation($sig, &format!("[{} len {} off {}] {}", T::NAME, len, off, $d), "");
                    return;
                }};
            }
            let c = CSliceRef::from(s);
            let c2 = CSliceRef::from_slice(s);
            if c.as_ptr() != p || c.len() != l || c.is_empty() != (l == 0) || c2.as_ptr() != p || c2.len() != l {
                bad!("C12:sliceref-addr-len", format!("ptr {:?}/{:?} len {}/{}", c.as_ptr(), p, c.len(), l));
            }
            if c.as_slice() != s || &*c != s {
                bad!("C12:sliceref-content", "as_slice/deref differ from source");
            }
            // address and length survive *every* view, also for the empty slice
            if c.as_slice().as_ptr() != p || c.as_slice().len() != l || (&*c).as_ptr() != p || (&*c).len() != l || c.iter().len() != l {
                bad!("C12:sliceref-addr-len", format!("as_slice/deref view at {:?} len {} (source {:?} len {})", c.as_slice().as_ptr(), c.as_slice().len(), p, l));
            }
            let back: &[T] = c.into();
            if back.as_ptr() != p || back.len() != l || back != &orig[off..] {
                bad!("C12:sliceref-roundtrip", format!("back ptr {:?} len {}", back.as_ptr(), back.len()));
            }
            // mutable view
            let ms: &mut [T] = &mut buf[off..];
            let mp = ms.as_mut_ptr();
            let mut m = CSliceMut::from(ms);
            if m.as_mut_ptr() != mp || m.as_ptr() != mp as *const T || m.len() != l || m.is_empty() != (l == 0) {
                bad!("C12:slicemut-addr-len", format!("ptr {:?}/{:?} len {}/{}", m.as_mut_ptr(), mp, m.len(), l));
            }
            if (&*m).as_ptr() != mp as *const T || (&*m).len() != l || (&mut *m).as_mut_ptr() != mp || (&mut *m).len() != l {
                bad!("C12:slicemut-addr-len", "Deref/DerefMut view of CSliceMut changed ptr/len");
            }
            {
                let r = CSliceRef::from(&m);
                if r.as_ptr() != mp as *const T || r.len() != l {
                    bad!("C12:slicemut-to-ref", "CSliceRef::from(&CSliceMut) changed ptr/len");
                }
            }
            {
                let mut re = CSliceMut::from(&mut m);
                if re.as_mut_ptr() != mp || re.len() != l {
                    bad!("C12:slicemut-reborrow", format!("CSliceMut::from(&mut CSliceMut) ptr {:?} len {} (want {:?} {})", re.as_mut_ptr(), re.len(), mp, l));
                }
                if l > 0 {
                    let i = rng.below(l);
                    let nv = T::make(rng);
                    re[i] = nv;
                    drop(re);
                    // the view that was re-borrowed from is untouched by the re-borrow
                    if m.len() != l || m.as_ptr() as usize != mp as usize {
                        bad!("C12:slicemut-reborrow", format!("after a re-borrow the original CSliceMut reports len {} (was {})", m.len(), l));
                    } else if m[i] != nv {
                        bad!("C12:slicemut-write-lost", "write through reborrowed CSliceMut not visible");
                    }
                }
            }
            let mut expect: Vec<T> = m[..].to_vec();
            if l > 0 {
                let j = rng.below(l);
                let nv2 = T::make(rng);
                m[j] = nv2;
                expect[j] = nv2;
            }
            let back_mut: &mut [T] = m.into();
            if back_mut.as_mut_ptr() != mp || back_mut.len() != l {
                bad!("C12:slicemut-roundtrip", "into &mut [T] changed ptr/len");
            }
            if l > 0 {
                let k = rng.below(l);
                let nv3 = T::make(rng);
                back_mut[k] = nv3;
                expect[k] = nv3;
            }
            if &buf[off..] != &expect[..] || &buf[..off] != &orig[..off] {
                bad!("C12:slicemut-write-lost", "writes through CSliceMut did not land in the original buffer");
            }
            {
                // as_slice / as_slice_mut borrow the view for its whole lifetime: last use
                let mut m3 = CSliceMut::from(&mut buf[off..]);
                if l == 0 {
                    let v = m3.as_slice_mut();
                    if v.as_mut_ptr() != mp || v.len() != 0 {
                        bad!("C12:slicemut-addr-len", "CSliceMut::as_slice_mut changed the address of an empty slice");
                    }
                } else if l > 0 {
                    let i = rng.below(l);
                    let nv = T::make(rng);
                    m3.as_slice_mut()[i] = nv;
                    expect[i] = nv;
                }
            }
            {
                let m4 = CSliceMut::from(&mut buf[off..]);
                if m4.as_slice().as_ptr() != mp as *const T || m4.as_slice().len() != l {
                    bad!("C12:slicemut-addr-len", "CSliceMut::as_slice changed ptr/len");
                }
                if m4.as_slice() != &expect[..] {
                    bad!("C12:slicemut-write-lost", "as_slice_mut write not visible through as_slice");
                }
            }
            let m2 = CSliceMut::from(&mut buf[off..]);
            let b3: &[T] = m2.into();
            if b3.as_ptr() != mp as *const T || b3.len() != l {
                bad!("C12:slicemut-roundtrip", "into &[T] changed ptr/len");
            }
            rep.add("slice_cases", 1);
            rep.distinct(vmon::rng::mix(T::NAME.len() as u64 * 1000 + len as u64, off as u64));
        }
    }
}

fn utf8_case(bytes: &[u8], rep: &mut Report) -> bool {
    let want = std::str::from_utf8(bytes);
    let c = CSliceRef::from(bytes);
    let got = <&str>::try_from(c);
    let same = match (&want, &got) {
        (Ok(a), Ok(b)) => a.as_ptr() == b.as_ptr() && a.len() == b.len(),
        (Err(a), Err(b)) => a.valid_up_to() == b.valid_up_to() && a.error_len() == b.error_len(),
        _ => false,
    };
    if !same {
        rep.violation("C12:utf8-decision", &format!("bytes {:02x?}: std says {:?}, CSliceRef -> &str says {:?}", bytes, want.map(|_| "ok"), got.map(|_| "ok")), &format!("{:02x?}", bytes));
        return false;
    }
    if let Ok(w) = want {
        // the unchecked conversions and Display must give back exactly the string that went in
        let a = unsafe { CSliceRef::from(w).into_str() };
        let mut own = bytes.to_vec();
        let op = own.as_ptr();
        let b = unsafe { CSliceMut::from(&mut own[..]).into_str() };
        if (a.as_ptr(), a.len()) != (w.as_ptr(), w.len()) || (b.as_ptr(), b.len()) != (op, bytes.len()) {
            rep.violation("C12:str-roundtrip", &format!("into_str of {:?}: got {:?} / {:?}", w, a, b), &format!("{:02x?}", bytes));
            return false;
        }
        let c = unsafe { CSliceMut::from(&mut own[..]).into_mut_str() };
        if (c.as_ptr(), c.len()) != (op, bytes.len()) {
            rep.violation("C12:str-roundtrip", &format!("into_mut_str of {:?}", w), &format!("{:02x?}", bytes));
            return false;
        }
    }
    true
}

fn utf8_mut_case(bytes: &[u8], rep: &mut Report) {
    let want = std::str::from_utf8(bytes).is_ok();
    let mut b1 = bytes.to_vec();
    let p = b1.as_ptr();
    let g1 = <&str>::try_from(CSliceMut::from(&mut b1[..])).map(|s| (s.as_ptr(), s.len()));
    let mut b2 = bytes.to_vec();
    let p2 = b2.as_ptr();
    let g2 = <&mut str>::try_from(CSliceMut::from(&mut b2[..])).map(|s| (s.as_ptr(), s.len()));
    if g1.is_ok() != want || g2.is_ok() != want || (want && (g1.unwrap() != (p, bytes.len()) || g2.unwrap() != (p2, bytes.len()))) {
        rep.violation("C12:utf8-decision", &format!("bytes {:02x?}: CSliceMut -> &str / &mut str disagree with std (want ok={})", bytes, want), &format!("{:02x?}", bytes));
    }
}

fn strings(rng: &mut Rng, rep: &mut Report, full3: bool, args: &Args) {
    // valid strings: same bytes, same address
    for s in ["", "a", "hello", "é", "€uro", "😀 mixed é€", "\0nul\0inside", "\0", "ends with nul\0", "two\0\0", " lead", "trail ", "line\n", "\u{feff}bom", "tab\t", "é\0"] {
        let c = CSliceRef::from(s);
        let c2 = CSliceRef::from_str(s);
        if c.as_ptr() != s.as_ptr() || c.len() != s.len() || c2.as_ptr() != s.as_ptr() || c2.len() != s.len() {
            rep.violation("C12:str-addr-len", &format!("{:?}", s), "");
        }
        let b = unsafe { c.into_str() };
        if b.as_ptr() != s.as_ptr() || b != s || format!("{}", c2) != s {
            rep.violation("C12:str-roundtrip", &format!("{:?}", s), "");
        }
        let mut owned = s.to_string();
        let (op, ol) = (owned.as_ptr(), owned.len());
        let m = CSliceMut::from(owned.as_mut_str());
        if m.as_ptr() != op || m.len() != ol {
            rep.violation("C12:str-addr-len", &format!("CSliceMut from &mut str {:?}", s), "");
        }
        let ms = unsafe { m.into_mut_str() };
        if ms.as_ptr() != op || ms != s {
            rep.violation("C12:str-roundtrip", &format!("into_mut_str {:?}", s), "");
        }
        rep.add("str_cases", 1);
    }
    // exhaustive UTF-8 decision
    let mut n = 0u64;
    utf8_case(&[], rep);
    let le1 = args.has("le1"); // Miri: two-byte exhaustive is too slow there
    for a in 0..=255u8 {
        n += utf8_case(&[a], rep) as u64;
        if le1 {
            continue;
        }
        for b in 0..=255u8 {
            n += utf8_case(&[a, b], rep) as u64;
        }
    }
    rep.add(if le1 { "utf8_exhaustive_len_le1" } else { "utf8_exhaustive_len_le2" }, n);
    if full3 {
        // all 2^24 three-byte strings, sharded over threads
        let shard = args.get("shard", 0);
        let shards = args.get("shards", 1);
        let mut m = 0u64;
        for a in 0..=255u8 {
            if (a as u64) % shards != shard {
                continue;
            }
            for b in 0..=255u8 {
                for c in 0..=255u8 {
                    m += utf8_case(&[a, b, c], rep) as u64;
                }
            }
        }
        rep.add("utf8_exhaustive_len3", m);
    }
    let edge = [0x00u8, 0x7F, 0x80, 0xBF, 0xC0, 0xC1, 0xC2, 0xDF, 0xE0, 0xED, 0xEF, 0xF0, 0xF4, 0xF5, 0xFF, 0x9F, 0xA0, 0x8F, 0x90];
    let maxl = args.get("edge_len", 4) as u32;
    let k = edge.len() as u64;
    let mut m = 0u64;
    for len in 3..=maxl {
        for mut code in 0..k.pow(len) {
            let mut v = Vec::with_capacity(len as usize);
            for _ in 0..len {
                v.push(edge[(code % k) as usize]);
                code /= k;
            }
            m += utf8_case(&v, rep) as u64;
            if m % 97 == 0 {
                utf8_mut_case(&v, rep);
            }
        }
    }
    rep.add("utf8_boundary_alphabet_cases", m);
    for _ in 0..args.count {
        let len = rng.below(24);
        let v: Vec<u8> = (0..len).map(|_| if rng.chance(1, 3) { edge[rng.below(edge.len())] } else { rng.next() as u8 }).collect();
        utf8_case(&v, rep);
        utf8_mut_case(&v, rep);
        rep.add("utf8_random_cases", 1);
    }
}

fn variants(rep: &mut Report) {
    let mark = tracked::mark();
    macro_rules! chk {
        ($c:expr, $sig:expr, $d:expr) => {
            if !($c) {
                rep.violation($sig, $d, "");
            }
        };
    }
    // ---- COption
    {
        let t = Tracked::new();
        let id = t.id;
        let c: COption<Tracked> = Some(t).into();
        chk!(c.is_some(), "C12:coption-variant", "Some -> not is_some");
        chk!(c.as_ref().map(|x| x.id) == Some(id), "C12:coption-payload", "as_ref");
        chk!(tracked::drops_of(id) == 0, "C12:coption-moved-once", "payload dropped by conversion");
        let o: Option<Tracked> = c.into();
        chk!(o.as_ref().map(|x| x.id) == Some(id) && tracked::drops_of(id) == 0, "C12:coption-payload", "back to Option");
        drop(o);
        chk!(tracked::drops_of(id) == 1, "C12:coption-moved-once", "payload not dropped exactly once");

        let n: COption<Tracked> = None.into();
        chk!(!n.is_some() && n.as_ref().is_none(), "C12:coption-variant", "None -> is_some");
        let o: Option<Tracked> = n.into();
        chk!(o.is_none(), "C12:coption-variant", "None roundtrip");
        let d: COption<Tracked> = Default::default();
        chk!(!d.is_some(), "C12:coption-variant", "default is not None");

        let t = Tracked::new();
        let id = t.id;
        let mut c = COption::Some(t);
        chk!(c.as_mut().map(|x| x.id) == Some(id), "C12:coption-payload", "as_mut");
        let taken = c.take();
        chk!(taken.as_ref().map(|x| x.id) == Some(id), "C12:coption-payload", "take returned wrong payload");
        chk!(!c.is_some(), "C12:coption-take-not-reset", "take() left Some behind");
        chk!(c.take().is_none(), "C12:coption-take-not-reset", "second take() returned a value");
        chk!(tracked::drops_of(id) == 0, "C12:coption-moved-once", "take dropped the payload");
        drop(taken);
        drop(c);
        chk!(tracked::drops_of(id) == 1, "C12:coption-moved-once", "after take: payload drop count != 1");

        let t = Tracked::new();
        let id = t.id;
        let u = COption::Some(t).unwrap();
        chk!(u.id == id && tracked::drops_of(id) == 0, "C12:coption-payload", "unwrap");
        drop(u);
        let r = std::panic::catch_unwind(|| COption::<u8>::None.unwrap());
        chk!(r.is_err(), "C12:coption-variant", "unwrap on None did not panic");
        let cc = COption::Some(7u64);
        let cd = cc; // Copy
        chk!(matches!((cc, cd), (COption::Some(7), COption::Some(7))), "C12:coption-payload", "copy");
        rep.add("coption_cases", 12);
        // clone / clone_from over every (destination, source) variant pair, directly and through slices
        for (di, si) in [(0u8, 0u8), (0, 1), (1, 0), (1, 1)] {
            let mk = |some: u8, v: u64| -> COption<u64> { if some == 1 { COption::Some(v) } else { COption::None } };
            let src = mk(si, 22);
            let mut dst = mk(di, 11);
            dst.clone_from(&src);
            let same = |a: &COption<u64>, b: &COption<u64>| matches!((a, b), (COption::None, COption::None)) || matches!((a, b), (COption::Some(x), COption::Some(y)) if x == y);
            chk!(same(&dst, &src) && same(&src.clone(), &src), "C12:coption-clone", &format!("clone_from({} <- {}) left the destination different from the source", if di == 1 { "Some(11)" } else { "None" }, if si == 1 { "Some(22)" } else { "None" }));
            let mut ds = [mk(di, 1), mk(di, 2)];
            ds.clone_from_slice(&[mk(si, 5), mk(si, 6)]);
            chk!(same(&ds[0], &mk(si, 5)) && same(&ds[1], &mk(si, 6)), "C12:coption-clone", "clone_from_slice over COption");
            let mut dv = vec![mk(di, 1)];
            dv.clone_from(&vec![mk(si, 9)]);
            chk!(same(&dv[0], &mk(si, 9)), "C12:coption-clone", "Vec::clone_from over COption");
            rep.add("coption_cases", 3);
        }
    }
    // ---- CResult
    {
        for ok in [true, false] {
            let t = Tracked::new();
            let id = t.id;
            let r: Result<Tracked, Tracked> = if ok { Ok(t) } else { Err(t) };
            let c: CResult<Tracked, Tracked> = r.into();
            chk!(c.is_ok() == ok && c.is_err() == !ok, "C12:cresult-variant", "is_ok/is_err");
            let got = match c.as_ref() {
                Ok(x) => (true, x.id),
                Err(x) => (false, x.id),
            };
            chk!(got == (ok, id), "C12:cresult-payload", "as_ref");
            chk!(tracked::drops_of(id) == 0, "C12:cresult-moved-once", "dropped in conversion");
            let mut c = c;
            let got = match c.as_mut() {
                Ok(x) => (true, x.id),
                Err(x) => (false, x.id),
            };
            chk!(got == (ok, id), "C12:cresult-payload", "as_mut");
            let back: Result<Tracked, Tracked> = c.into();
            let got = match &back {
                Ok(x) => (true, x.id),
                Err(x) => (false, x.id),
            };
            chk!(got == (ok, id) && tracked::drops_of(id) == 0, "C12:cresult-payload", "back to Result");
            drop(back);
            chk!(tracked::drops_of(id) == 1, "C12:cresult-moved-once", "drop count != 1");

            let t = Tracked::new();
            let id = t.id;
            let c: CResult<Tracked, Tracked> = if ok { CResult::Ok(t) } else { CResult::Err(t) };
            let o = c.ok();
            chk!(o.is_some() == ok && o.as_ref().map(|x| x.id).unwrap_or(id) == id, "C12:cresult-payload", "ok()");
            drop(o);
            chk!(tracked::drops_of(id) == 1, "C12:cresult-moved-once", "ok(): drop count != 1");
        }
        let t = Tracked::new();
        let id = t.id;
        let u = CResult::<Tracked, u8>::Ok(t).unwrap();
        chk!(u.id == id, "C12:cresult-payload", "unwrap");
        drop(u);
        let r = std::panic::catch_unwind(|| CResult::<u8, u8>::Err(3).unwrap());
        chk!(r.is_err(), "C12:cresult-variant", "unwrap on Err did not panic");
        rep.add("cresult_cases", 10);
    }
    // ---- tuples
    {
        let (a, b, c, d) = (Tracked::new(), Tracked::new(), Tracked::new(), Tracked::new());
        let ids = (a.id, b.id, c.id, d.id);
        let t4: CTup4<_, _, _, _> = (a, b, c, d).into();
        chk!((t4.0.id, t4.1.id, t4.2.id, t4.3.id) == ids, "C12:ctup-order", "CTup4 fields out of order");
        let (a, b, c, d) = t4.into_tuple();
        chk!((a.id, b.id, c.id, d.id) == ids, "C12:ctup-order", "CTup4 into_tuple");
        let t3: CTup3<_, _, _> = (a, b, c).into();
        chk!((t3.0.id, t3.1.id, t3.2.id) == (ids.0, ids.1, ids.2), "C12:ctup-order", "CTup3");
        let (a, b, c): (Tracked, Tracked, Tracked) = t3.into();
        let t2: CTup2<_, _> = (a, b).into();
        chk!((t2.0.id, t2.1.id) == (ids.0, ids.1), "C12:ctup-order", "CTup2");
        let (a, b) = t2.into_tuple();
        let t1: CTup1<_> = (a,).into();
        chk!(t1.0.id == ids.0, "C12:ctup-order", "CTup1");
        let (a,) = t1.into_tuple();
        for id in [ids.0, ids.1, ids.2, ids.3] {
            chk!(tracked::drops_of(id) == 0, "C12:ctup-moved-once", "tuple conversion dropped a field");
        }
        drop((a, b, c, d));
        for id in [ids.0, ids.1, ids.2, ids.3] {
            chk!(tracked::drops_of(id) == 1, "C12:ctup-moved-once", "tuple field drop count != 1");
        }
        let x = CTup2(1u8, 0xdead_beef_u64);
        chk!(x.into_tuple() == (1u8, 0xdead_beef_u64) && x == CTup2::from((1u8, 0xdead_beef_u64)), "C12:ctup-order", "copy tuple");
        // every permutation of field types of different size and alignment: a tuple's own layout is the
        // compiler's business, the CTup's is declaration order; conversion must go field by field
        macro_rules! mixed {
            ($($t:ty = $v:expr),+ ; $ctup:ident) => {{
                let tup = ($($v as $t),+ ,);
                let c: $ctup<$($t),+> = tup.into();
                let back = c.into_tuple();
                chk!(back == tup, "C12:ctup-order", concat!("mixed-alignment ", stringify!($ctup), "<", stringify!($($t),+), "> changed its payload"));
                let c2: $ctup<$($t),+> = back.into();
                chk!(c2 == c, "C12:ctup-order", concat!("mixed-alignment ", stringify!($ctup), " round trip"));
                rep.add("ctup_cases", 1);
            }};
        }
        mixed!(u8 = 1, u16 = 0x0202, u32 = 0x33333333u32 ; CTup3);
        mixed!(u32 = 0x33333333u32, u8 = 1, u16 = 0x0202 ; CTup3);
        mixed!(u16 = 0x0202, u32 = 0x33333333u32, u8 = 1 ; CTup3);
        mixed!(u8 = 1, u64 = 0x4444444444444444u64, u8 = 2 ; CTup3);
        mixed!(u8 = 1, u16 = 0x0202, u32 = 0x33333333u32, u64 = 0x4444444444444444u64 ; CTup4);
        mixed!(u64 = 0x4444444444444444u64, u8 = 1, u32 = 0x33333333u32, u16 = 0x0202 ; CTup4);
        mixed!(u16 = 0x0202, u8 = 1, u64 = 0x4444444444444444u64, u32 = 0x33333333u32 ; CTup4);
        mixed!(u8 = 1, u8 = 2, u16 = 0x0303, u32 = 0x44444444u32 ; CTup4);
        mixed!(u8 = 9, u32 = 0x33333333u32 ; CTup2);
        mixed!(u16 = 0x0202, u64 = 0x4444444444444444u64 ; CTup2);
        rep.add("ctup_cases", 6);
    }
    let (leaked, multi) = tracked::since(mark);
    if !leaked.is_empty() || !multi.is_empty() {
        rep.violation("C12:variant-payload-accounting", &format!("leaked {:?} double {:?}", leaked, multi), "");
    }
}

pub fn run(args: &Args, rep: &mut Report) {
    let mut rng = Rng::new(args.seed);
    let maxlen = args.get("maxlen", 64) as usize;
    rep.sample("C12 slice case", "element type s3 (3-byte struct), len 5 at offset 3 of its buffer: CSliceRef/CSliceMut round trip must keep address, len, content; writes through the view must land in the buffer");
    rep.sample("C12 UTF-8 decision case (bytes)", "[e0, 9f, bf] -> must be refused exactly like core::str::from_utf8 (valid_up_to=0, error_len=1)");
    let what = args.kv.get("what").map(|s| s.as_str()).unwrap_or("all").to_string();
    if what == "all" || what == "slices" {
        slices::<u8>(&mut rng, maxlen, rep);
        slices::<u64>(&mut rng, maxlen, rep);
        slices::<()>(&mut rng, maxlen, rep);
        slices::<S3>(&mut rng, maxlen, rep);
    }
    if what == "all" || what == "strings" {
        strings(&mut rng, rep, args.has("full3"), args);
    }
    if what == "all" || what == "variants" {
        for _ in 0..args.get("variant_rounds", 3) {
            variants(rep);
        }
    }
    if what == "utf8shard" {
        // only the 3-byte exhaustive shard
        let shard = args.get("shard", 0);
        let shards = args.get("shards", 1);
        let mut m = 0u64;
        for a in 0..=255u8 {
            if (a as u64) % shards != shard {
                continue;
            }
            for b in 0..=255u8 {
                for c in 0..=255u8 {
                    m += utf8_case(&[a, b, c], rep) as u64;
                }
            }
        }
        rep.add("utf8_exhaustive_len3", m);
    }
}
