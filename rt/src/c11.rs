//! C11 — CVec is observationally a Vec.
//! Oracle: lock-step model (Vec of element keys), catch_unwind around out-of-range ops,
//! Tracked elements for exactly-once drops, tracking allocator for the free layout, and a
//! forged CVec whose reserve_fn/drop_fn are counting stubs over a private arena.
use crate::cview::{forge, view, CVecView};
use crate::Args;
use cglue::vec::CVec;
use std::alloc::{GlobalAlloc, Layout, System};
use std::panic::{catch_unwind, AssertUnwindSafe};
use std::sync::atomic::{AtomicU64, Ordering};
use std::sync::Mutex;
use vmon::{tracked, Report, Rng, Tracked};

pub trait Elem: Sized + Clone {
    const NAME: &'static str;
    fn make(rng: &mut Rng) -> Self;
    fn key(&self) -> u64;
    /// key a clone of an element with key `k` must have (None = cannot be predicted exactly)
    fn clone_matches(orig_key: u64, clone: &Self) -> bool;
    /// (created, destroyed) so far, for element types that can only be counted
    fn counters() -> Option<(u64, u64)> {
        None
    }
}
/// zero-sized *and* droppable: nothing to store, but every value must still be destroyed exactly once
impl Elem for vmon::TrackedZst {
    const NAME: &'static str = "zst-drop";
    fn make(_: &mut Rng) -> Self {
        vmon::TrackedZst::new()
    }
    fn key(&self) -> u64 {
        0
    }
    fn clone_matches(_: u64, _: &Self) -> bool {
        true
    }
    fn counters() -> Option<(u64, u64)> {
        Some(vmon::TrackedZst::counts())
    }
}
impl Elem for u8 {
    const NAME: &'static str = "u8";
    fn make(rng: &mut Rng) -> Self {
        rng.next() as u8
    }
    fn key(&self) -> u64 {
        *self as u64
    }
    fn clone_matches(k: u64, c: &Self) -> bool {
        *c as u64 == k
    }
}
impl Elem for u64 {
    const NAME: &'static str = "u64";
    fn make(rng: &mut Rng) -> Self {
        rng.edgy()
    }
    fn key(&self) -> u64 {
        *self
    }
    fn clone_matches(k: u64, c: &Self) -> bool {
        *c == k
    }
}
impl Elem for () {
    const NAME: &'static str = "zst";
    fn make(_: &mut Rng) -> Self {}
    fn key(&self) -> u64 {
        0
    }
    fn clone_matches(_: u64, _: &Self) -> bool {
        true
    }
}
impl Elem for Tracked {
    const NAME: &'static str = "tracked";
    fn make(_: &mut Rng) -> Self {
        Tracked::new()
    }
    fn key(&self) -> u64 {
        self.touch()
    }
    fn clone_matches(k: u64, c: &Self) -> bool {
        tracked::tag_of(c.id) as u64 == k + 1
    }
}

fn compare<T: Elem>(v: &CVec<T>, model: &[u64]) -> Option<String> {
    if v.len() != model.len() {
        return Some(format!("len {} != model {}", v.len(), model.len()));
    }
    if v.is_empty() != model.is_empty() {
        return Some("is_empty disagrees".into());
    }
    if v.capacity() < v.len() {
        return Some(format!("capacity {} < len {}", v.capacity(), v.len()));
    }
    let s: &[T] = &v[..];
    if s.len() != model.len() {
        return Some("deref len".into());
    }
    if s.as_ptr() != v.as_ptr() {
        return Some("as_ptr differs from slice ptr".into());
    }
    for (i, (e, m)) in s.iter().zip(model.iter()).enumerate() {
        if e.key() != *m {
            return Some(format!("element {} is {} model {}", i, e.key(), m));
        }
    }
    None
}

/// One history on element type T.  Returns false on violation.
fn history<T: Elem + std::fmt::Debug>(ops: &[(u8, u8)], rng: &mut Rng, rep: &mut Report, init_spare: bool) -> bool {
    let mark = tracked::mark();
    let c0 = T::counters();
    let mut model: Vec<u64> = vec![];
    // initial vector: from a Vec with exact or spare capacity
    let mut init: Vec<T> = if init_spare { Vec::with_capacity(7) } else { Vec::new() };
    let n0 = (ops.first().map(|o| o.1).unwrap_or(0) % 4) as usize;
    for _ in 0..n0 {
        let e = T::make(rng);
        model.push(e.key());
        init.push(e);
    }
    if !init_spare {
        init.shrink_to_fit();
    }
    let cap0 = init.capacity();
    let mut v: CVec<T> = CVec::from(init);
    let mut trace: Vec<String> = vec![format!("from Vec(len {}, cap {})", n0, cap0)];
    let mut dropped_expected: Vec<u64> = vec![];
    macro_rules! fail {
        ($sig:expr, $d:expr) => {{
            rep.violation($sig, &format!("[{}] {} ; ops {:?} ; trace {:?}", T::NAME, $d, ops, trace), &format!("{}:{:?}", T::NAME, ops));
            std::mem::forget(v);
            return false;
        }};
    }
    if v.capacity() != cap0 {
        fail!("C11:from-vec-capacity", format!("capacity {} after From<Vec> with capacity {}", v.capacity(), cap0));
    }
    for (kind, arg) in ops.iter().copied() {
        let len = model.len();
        match kind % 12 {
            0 | 1 => {
                let e = T::make(rng);
                model.push(e.key());
                v.push(e);
                trace.push("push".into());
            }
            2 => {
                let got = v.pop();
                let want = model.pop();
                trace.push("pop".into());
                match (got, want) {
                    (None, None) => {}
                    (Some(g), Some(w)) => {
                        if g.key() != w {
                            fail!("C11:pop-value", format!("pop returned {} model {}", g.key(), w));
                        }
                        if T::NAME == "tracked" {
                            dropped_expected.push(w);
                        }
                    }
                    (g, w) => fail!("C11:pop-presence", format!("pop {:?} vs model {:?}", g.map(|x| x.key()), w)),
                }
            }
            3 | 4 => {
                // in-range insert
                let idx = if len == 0 { 0 } else { arg as usize % (len + 1) };
                let e = T::make(rng);
                model.insert(idx, e.key());
                v.insert(idx, e);
                trace.push(format!("insert({})", idx));
            }
            5 => {
                // out-of-range insert must panic and leave the vector alone
                let idx = len + 1 + (arg as usize % 3);
                let e = T::make(rng);
                let ek = e.key();
                let r = catch_unwind(AssertUnwindSafe(|| v.insert(idx, e)));
                trace.push(format!("insert({}) out of range", idx));
                if r.is_ok() {
                    fail!("C11:oob-insert-no-panic", format!("insert({}) on len {} did not panic", idx, len));
                }
                if T::NAME == "tracked" {
                    dropped_expected.push(ek);
                }
            }
            6 => {
                if len == 0 {
                    continue;
                }
                let idx = arg as usize % len;
                let want = model.remove(idx);
                let got = v.remove(idx);
                trace.push(format!("remove({})", idx));
                if got.key() != want {
                    fail!("C11:remove-value", format!("remove({}) returned {} model {}", idx, got.key(), want));
                }
                if T::NAME == "tracked" {
                    dropped_expected.push(want);
                }
            }
            7 => {
                let idx = len + (arg as usize % 3);
                let r = catch_unwind(AssertUnwindSafe(|| {
                    let x = v.remove(idx);
                    std::mem::forget(x);
                }));
                trace.push(format!("remove({}) out of range", idx));
                if r.is_ok() {
                    fail!("C11:oob-remove-no-panic", format!("remove({}) on len {} did not panic", idx, len));
                }
            }
            8 => {
                let add = [0usize, 1, 2, 5, 17, 64][arg as usize % 6];
                v.reserve(add);
                trace.push(format!("reserve({})", add));
                if v.capacity() - v.len() < add {
                    fail!("C11:reserve-too-small", format!("after reserve({}) capacity {} len {}", add, v.capacity(), v.len()));
                }
            }
            9 => {
                // clone: same keys (or clone-tagged), independent buffer
                let c = Some(v.clone());
                trace.push("clone".into());
                if let Some(c) = c {
                    if c.len() != v.len() || (c.len() > 0 && std::mem::size_of::<T>() > 0 && c.as_ptr() == v.as_ptr()) {
                        fail!("C11:clone-shape", format!("clone len {} vs {}, shares buffer: {}", c.len(), v.len(), c.as_ptr() == v.as_ptr()));
                    }
                    for (i, e) in c.iter().enumerate() {
                        if !T::clone_matches(model[i], e) {
                            fail!("C11:clone-content", format!("clone element {} does not derive from original {}", i, model[i]));
                        }
                        if T::NAME == "tracked" {
                            dropped_expected.push(e.key());
                        }
                    }
                    // clone_from into a destination that is longer / shorter than the source: afterwards it is the source's twin
                    {
                        let extra = (arg % 5) as usize;
                        let mut dst: CVec<T> = CVec::from((0..extra).map(|_| T::make(rng)).collect::<Vec<T>>());
                        dst.clone_from(&v);
                        trace.push(format!("clone_from into len {}", extra));
                        if dst.len() != v.len() {
                            fail!("C11:clone-shape", format!("clone_from: destination has {} elements, source {}", dst.len(), v.len()));
                        }
                        for (i, e) in dst.iter().enumerate() {
                            if !T::clone_matches(model[i], e) {
                                fail!("C11:clone-content", format!("clone_from: element {} does not derive from original {}", i, model[i]));
                            }
                        }
                        drop(dst);
                    }
                    drop(c);
                }
            }
            10 => {
                // in-place write through DerefMut
                if len == 0 {
                    continue;
                }
                let idx = arg as usize % len;
                let e = T::make(rng);
                let old = model[idx];
                model[idx] = e.key();
                v[idx] = e;
                if T::NAME == "tracked" {
                    dropped_expected.push(old);
                }
                if len > 1 {
                    let j = (idx + 1) % len;
                    v.swap(idx, j);
                    model.swap(idx, j);
                }
                trace.push(format!("write[{}]+swap", idx));
            }
            _ => {
                // rebuild from a fresh Vec (drop + From<Vec>)
                let spare = arg % 2 == 0;
                let mut nv: Vec<T> = if spare { Vec::with_capacity(len + 3) } else { Vec::new() };
                for k in model.drain(..) {
                    if T::NAME == "tracked" {
                        dropped_expected.push(k);
                    }
                }
                let m = arg as usize % 4;
                for _ in 0..m {
                    let e = T::make(rng);
                    model.push(e.key());
                    nv.push(e);
                }
                if !spare {
                    nv.shrink_to_fit();
                }
                v = CVec::from(nv);
                trace.push(format!("drop + from Vec(len {}, spare {})", m, spare));
            }
        }
        if let Some(d) = compare(&v, &model) {
            fail!("C11:content-diverged", d);
        }
        if let (Some(a), Some(b)) = (c0, T::counters()) {
            // counted elements: exactly the ones in the vector are alive
            let (made, gone) = (b.0 - a.0, b.1 - a.1);
            if gone > made || made - gone != model.len() as u64 {
                fail!("C11:element-drop-count", format!("{} values created, {} destroyed, {} in the vector", made, gone, model.len()));
            }
        }
        if T::NAME == "tracked" {
            for k in &dropped_expected {
                let d = tracked::drops_of(*k);
                if d != 1 {
                    fail!("C11:element-drop-count", format!("element {} removed/overwritten: dropped {} times", k, d));
                }
            }
            for k in &model {
                if tracked::drops_of(*k) != 0 {
                    fail!("C11:live-element-dropped", format!("element {} still in the vector but dropped", k));
                }
            }
        }
    }
    let rest = model.clone();
    drop(v);
    if let (Some(a), Some(b)) = (c0, T::counters()) {
        if b.0 - a.0 != b.1 - a.1 {
            rep.violation("C11:element-drop-count", &format!("[{}] after drop: {} values created, {} destroyed; ops {:?}", T::NAME, b.0 - a.0, b.1 - a.1, ops), &format!("{}:{:?}", T::NAME, ops));
            return false;
        }
    }
    if T::NAME == "tracked" {
        let (leaked, multi) = tracked::since(mark);
        if !leaked.is_empty() || !multi.is_empty() {
            rep.violation(
                if multi.is_empty() { "C11:element-leaked" } else { "C11:element-double-drop" },
                &format!("[{}] after drop: never dropped {:?}, dropped twice {:?}; remaining were {:?}; ops {:?}", T::NAME, leaked, multi, rest, ops),
                &format!("{}:{:?}", T::NAME, ops),
            );
            return false;
        }
    }
    rep.add("ops", ops.len() as u64);
    rep.set_max("max_len_seen", rest.len() as u64);
    true
}

// ------------------------------------------------------------------------------------------
// forged CVec over a private arena
static ARENA: Mutex<Vec<(usize, usize)>> = Mutex::new(Vec::new()); // (ptr, capacity)
static R_CALLS: AtomicU64 = AtomicU64::new(0);
static D_CALLS: AtomicU64 = AtomicU64::new(0);
static A_BAD: AtomicU64 = AtomicU64::new(0);

unsafe fn arena_alloc(cap: usize) -> *mut u64 {
    let p = System.alloc(Layout::array::<u64>(cap.max(1)).unwrap()) as *mut u64;
    ARENA.lock().unwrap().push((p as usize, cap));
    p
}
unsafe fn arena_free(p: *mut u64, cap: usize) -> bool {
    let mut a = ARENA.lock().unwrap();
    if let Some(i) = a.iter().position(|e| e.0 == p as usize) {
        let ok = a[i].1 == cap;
        let real = a[i].1;
        a.swap_remove(i);
        System.dealloc(p as *mut u8, Layout::array::<u64>(real.max(1)).unwrap());
        ok
    } else {
        false
    }
}
unsafe extern "C" fn a_reserve(v: *mut CVecView<u64>, add: usize) -> usize {
    R_CALLS.fetch_add(1, Ordering::SeqCst);
    let v = &mut *v;
    let need = v.len + add;
    let ncap = need.max(v.capacity * 2).max(4);
    let np = arena_alloc(ncap);
    std::ptr::copy_nonoverlapping(v.data, np, v.len);
    if !arena_free(v.data, v.capacity) {
        A_BAD.fetch_add(1, Ordering::SeqCst);
    }
    v.data = np;
    v.capacity = ncap;
    ncap
}
unsafe extern "C" fn a_drop(data: *mut u64, _len: usize, cap: usize) {
    D_CALLS.fetch_add(1, Ordering::SeqCst);
    if !arena_free(data, cap) {
        A_BAD.fetch_add(1, Ordering::SeqCst);
    }
}

fn forged_history(rng: &mut Rng, len: usize, rep: &mut Report) {
    let (r0, d0) = (R_CALLS.load(Ordering::SeqCst), D_CALLS.load(Ordering::SeqCst));
    let cap0 = rng.below(4);
    let data = unsafe { arena_alloc(cap0) };
    let mut v: CVec<u64> = unsafe { forge(CVecView::<u64> { data, len: 0, capacity: cap0, drop_fn: Some(a_drop), reserve_fn: Some(a_reserve) }) };
    let mut model: Vec<u64> = vec![];
    let mut want_reserves = 0u64;
    let mut trace = vec![];
    for _ in 0..len {
        let cap_before = v.capacity();
        match rng.below(6) {
            0 | 1 | 2 => {
                let x = rng.next();
                if cap_before - model.len() < 1 {
                    want_reserves += 1;
                }
                model.push(x);
                v.push(x);
                trace.push("push");
            }
            3 => {
                let idx = rng.below(model.len() + 1);
                let x = rng.next();
                if cap_before - model.len() < 1 {
                    want_reserves += 1;
                }
                model.insert(idx, x);
                v.insert(idx, x);
                trace.push("insert");
            }
            4 => {
                let add = rng.below(9);
                if cap_before - model.len() < add {
                    want_reserves += 1;
                }
                v.reserve(add);
                trace.push("reserve");
            }
            _ => {
                if v.pop() != model.pop() {
                    rep.violation("C11:forged-content", "pop mismatch on forged vector", "");
                }
                trace.push("pop");
            }
        }
        let view: &CVecView<u64> = unsafe { view(&v) };
        let arena_ok = ARENA.lock().unwrap().iter().any(|e| e.0 == view.data as usize && e.1 == view.capacity);
        let r = R_CALLS.load(Ordering::SeqCst) - r0;
        if &v[..] != &model[..] || !arena_ok || r != want_reserves || A_BAD.load(Ordering::SeqCst) != 0 || D_CALLS.load(Ordering::SeqCst) != d0 {
            rep.violation(
                "C11:buffer-not-managed-through-stored-functions",
                &format!("forged CVec: content ok {}, buffer in arena with right capacity {}, reserve_fn calls {} want {}, bad arena frees {}, early drop_fn calls {}, trace {:?}", &v[..] == &model[..], arena_ok, r, want_reserves, A_BAD.load(Ordering::SeqCst), D_CALLS.load(Ordering::SeqCst) - d0, trace),
                "",
            );
            std::mem::forget(v);
            return;
        }
    }
    drop(v);
    if D_CALLS.load(Ordering::SeqCst) - d0 != 1 || A_BAD.load(Ordering::SeqCst) != 0 || !ARENA.lock().unwrap().is_empty() {
        rep.violation("C11:buffer-not-managed-through-stored-functions", &format!("forged CVec drop: drop_fn calls {}, bad {}, arena blocks left {}", D_CALLS.load(Ordering::SeqCst) - d0, A_BAD.load(Ordering::SeqCst), ARENA.lock().unwrap().len()), "");
        ARENA.lock().unwrap().clear();
    }
    rep.add("forged_ops", trace.len() as u64);
    rep.add("forged_reserve_fn_calls", want_reserves);
}

fn run_type<T: Elem + std::fmt::Debug>(args: &Args, rep: &mut Report, rng: &mut Rng, depth: u32) {
    // bounded-exhaustive: 12 kinds x 3 args
    let sym = 36u64;
    for len in 1..=depth {
        for mut code in 0..sym.pow(len) {
            let mut ops = Vec::with_capacity(len as usize);
            for _ in 0..len {
                let s = (code % sym) as u8;
                code /= sym;
                ops.push((s / 3, s % 3));
            }
            for spare in [false, true] {
                if history::<T>(&ops, rng, rep, spare) {
                    rep.add(&format!("histories_exhaustive_{}", T::NAME), 1);
                }
            }
        }
    }
    let maxlen = args.get("maxlen", 400) as usize;
    for h in 0..args.count {
        let len = 1 + rng.below(maxlen);
        let ops: Vec<(u8, u8)> = (0..len).map(|_| (rng.below(12) as u8, rng.below(251) as u8)).collect();
        let mut dg = T::NAME.len() as u64;
        for o in &ops {
            dg = vmon::rng::mix(dg, (o.0 as u64) << 8 | o.1 as u64);
        }
        rep.distinct(dg);
        if h == 0 && T::NAME == "tracked" {
            rep.sample("C11 random history (kind,arg) on CVec<Tracked> — kinds: 0-1 push,2 pop,3-4 insert,5 insert OOB,6 remove,7 remove OOB,8 reserve,9 clone,10 write+swap,11 drop+from Vec", &format!("{:?}", &ops[..ops.len().min(40)]));
        }
        if history::<T>(&ops, rng, rep, h % 2 == 0) {
            rep.add(&format!("histories_random_{}", T::NAME), 1);
        }
    }
}

pub fn run(args: &Args, rep: &mut Report) {
    let mut rng = Rng::new(args.seed);
    let depth = args.get("depth", 2) as u32;
    let ty = args.kv.get("type").map(|s| s.as_str()).unwrap_or("all").to_string();
    if ty == "all" || ty == "u8" {
        run_type::<u8>(args, rep, &mut rng, depth);
    }
    if ty == "all" || ty == "u64" {
        run_type::<u64>(args, rep, &mut rng, depth);
    }
    if ty == "all" || ty == "zst" {
        run_type::<()>(args, rep, &mut rng, depth);
    }
    if ty == "all" || ty == "tracked" {
        run_type::<Tracked>(args, rep, &mut rng, depth);
    }
    if ty == "all" || ty == "zst-drop" {
        run_type::<vmon::TrackedZst>(args, rep, &mut rng, depth);
    }
    if ty == "all" || ty == "forged" {
        let n = args.get("forged", args.count.min(1000));
        for _ in 0..n {
            let len = 1 + rng.below(80);
            forged_history(&mut rng, len, rep);
            rep.add("forged_histories", 1);
        }
    }
    rep.add("exhaustive_depth", depth as u64);
}
