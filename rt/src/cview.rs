//! `#[repr(C)]` mirrors of the *published* C declarations of the runtime types (the view a
//! foreign caller has).  Used to read library values field by field and to forge values whose
//! function pointers are ours.
#![allow(dead_code)]
use std::ffi::c_void;

#[repr(C)]
pub struct CBoxView<T> {
    pub instance: *mut T,
    pub drop_fn: Option<unsafe extern "C" fn(*mut T)>,
}

#[repr(C)]
pub struct CArcView<T> {
    pub instance: *const T,
    pub clone_fn: Option<unsafe extern "C" fn(*const T) -> *const T>,
    pub drop_fn: Option<unsafe extern "C" fn(*const T)>,
}

#[repr(C)]
#[derive(Clone, Copy)]
pub struct CSliceView<T> {
    pub data: *const T,
    pub len: usize,
}

#[repr(C)]
pub struct CVecView<T> {
    pub data: *mut T,
    pub len: usize,
    pub capacity: usize,
    pub drop_fn: Option<unsafe extern "C" fn(*mut T, usize, usize)>,
    pub reserve_fn: Option<unsafe extern "C" fn(*mut CVecView<T>, usize) -> usize>,
}

#[repr(C)]
pub struct CallbackView<T> {
    pub context: *mut c_void,
    pub func: Option<unsafe extern "C" fn(*mut c_void, T) -> bool>,
}

#[repr(C)]
pub struct CIteratorView<T> {
    pub iter: *mut c_void,
    pub func: Option<unsafe extern "C" fn(*mut c_void, *mut T) -> i32>,
}

pub unsafe fn view<A, B>(a: &A) -> &B {
    assert_eq!(std::mem::size_of::<A>(), std::mem::size_of::<B>());
    assert_eq!(std::mem::align_of::<A>(), std::mem::align_of::<B>());
    &*(a as *const A as *const B)
}
pub unsafe fn view_mut<A, B>(a: &mut A) -> &mut B {
    assert_eq!(std::mem::size_of::<A>(), std::mem::size_of::<B>());
    assert_eq!(std::mem::align_of::<A>(), std::mem::align_of::<B>());
    &mut *(a as *mut A as *mut B)
}
pub unsafe fn forge<A, B>(a: A) -> B {
    assert_eq!(std::mem::size_of::<A>(), std::mem::size_of::<B>());
    let r = std::ptr::read(&a as *const A as *const B);
    std::mem::forget(a);
    r
}
