//! A poll driven by a foreign executor that speaks the C ABI of `CRefWaker` (its own opaque waker blob, its own clone / wake / drop
//! functions): everything the future does with the waker must go through the functions the executor supplied, and the executor must see
//! exactly the clones, wakes and releases the future made.  (shape taken from seeded mutant C05-m9's demonstration)
use crate::Args;
use cglue::prelude::v1::*;
use cglue::task::CRefWaker;
use cglue::trait_group::GetContainer;
use core::future::Future;
use core::mem::MaybeUninit;
use core::pin::Pin;
use core::sync::atomic::{AtomicUsize, Ordering::SeqCst};
use core::task::{Context, Poll, Waker};
use vmon::Report;

static PID: std::sync::Mutex<String> = std::sync::Mutex::new(String::new());

#[repr(C)]
#[derive(Clone, Copy)]
struct HostOpaqueWaker([*const (); 2]);

#[repr(C)]
struct HostWakerVtbl {
    clone: unsafe extern "C" fn(HostOpaqueWaker) -> HostCRawWaker,
    wake: unsafe extern "C" fn(HostOpaqueWaker),
    wake_by_ref: unsafe extern "C" fn(HostOpaqueWaker),
    drop: unsafe extern "C" fn(HostOpaqueWaker),
}

#[repr(C)]
struct HostCRawWaker {
    waker: HostOpaqueWaker,
    vtable: &'static HostWakerVtbl,
}

#[repr(C)]
struct HostCRefWaker<'a> {
    raw: &'a HostOpaqueWaker,
    clone: unsafe extern "C" fn(*const ()) -> HostCRawWaker,
    wake_by_ref: unsafe extern "C" fn(*const ()),
}

static HOST_CLONES: AtomicUsize = AtomicUsize::new(0);
static HOST_WAKES: AtomicUsize = AtomicUsize::new(0);
static HOST_DROPS: AtomicUsize = AtomicUsize::new(0);

/// The host's waker blob is not a `core::task::Waker` of this module. If anybody reinterprets it
/// as one (`data`/`vtable` pair) and calls through it, control ends up here. In a real
/// deployment this would be a wild jump; here it is made deterministic.
unsafe fn trap(_: *const ()) -> ! {
    // reached when the library treats the foreign blob as one of its own wakers: report and end the process in an orderly way
    println!("{{\"k\":\"violation\",\"sig\":\"{}:foreign-waker-reinterpreted\",\"detail\":\"a waker made by a foreign executor (C ABI of CRefWaker) was reinterpreted as a local core::task::Waker instead of being handled by the functions its maker supplied\",\"replay\":\"\"}}", PID.lock().unwrap());
    println!("{{\"k\":\"stat\",\"violations_seen\":1}}");
    println!("{{\"k\":\"done\"}}");
    std::process::exit(0)
}

static TRAP_TABLE: [unsafe fn(*const ()) -> !; 4] = [trap, trap, trap, trap];

fn host_blob() -> HostOpaqueWaker {
    let p = &TRAP_TABLE as *const _ as *const ();
    HostOpaqueWaker([p, p])
}

fn check_blob(w: &HostOpaqueWaker) {
    let p = &TRAP_TABLE as *const _ as *const ();
    assert!(w.0[0] == p && w.0[1] == p, "host got a blob it never made");
}

unsafe extern "C" fn host_vt_clone(w: HostOpaqueWaker) -> HostCRawWaker {
    check_blob(&w);
    HOST_CLONES.fetch_add(1, SeqCst);
    HostCRawWaker {
        waker: w,
        vtable: &HOST_VTBL,
    }
}
unsafe extern "C" fn host_vt_wake(w: HostOpaqueWaker) {
    check_blob(&w);
    HOST_WAKES.fetch_add(1, SeqCst);
    HOST_DROPS.fetch_add(1, SeqCst);
}
unsafe extern "C" fn host_vt_wake_by_ref(w: HostOpaqueWaker) {
    check_blob(&w);
    HOST_WAKES.fetch_add(1, SeqCst);
}
unsafe extern "C" fn host_vt_drop(w: HostOpaqueWaker) {
    check_blob(&w);
    HOST_DROPS.fetch_add(1, SeqCst);
}

static HOST_VTBL: HostWakerVtbl = HostWakerVtbl {
    clone: host_vt_clone,
    wake: host_vt_wake,
    wake_by_ref: host_vt_wake_by_ref,
    drop: host_vt_drop,
};

unsafe extern "C" fn host_ref_clone(raw: *const ()) -> HostCRawWaker {
    host_vt_clone(*(raw as *const HostOpaqueWaker))
}
unsafe extern "C" fn host_ref_wake_by_ref(raw: *const ()) {
    host_vt_wake_by_ref(*(raw as *const HostOpaqueWaker))
}

// ------------------------------------------------------------------------------------------------
// "Plugin" module: an ordinary Rust future exported as a cglue object.
// ------------------------------------------------------------------------------------------------

/// Pending on first poll (keeps a clone of the waker, as any real future does), ready on second.
struct StoreWaker {
    stored: Option<Waker>,
}

impl Future for StoreWaker {
    type Output = u32;

    fn poll(mut self: Pin<&mut Self>, cx: &mut Context<'_>) -> Poll<u32> {
        match self.stored.take() {
            None => {
                cx.waker().wake_by_ref();
                self.stored = Some(cx.waker().clone());
                Poll::Pending
            }
            Some(w) => {
                w.wake_by_ref();
                let w2 = w.clone();
                w2.wake();
                drop(w);
                Poll::Ready(42)
            }
        }
    }
}


pub fn run(args: &Args, rep: &mut Report) {
    let pid = args.kv.get("pid").cloned().unwrap_or_else(|| "C05".to_string());
    *PID.lock().unwrap() = pid.clone();
    for round in 0..args.count.max(1) {
        let (c0, w0, d0) = (HOST_CLONES.load(SeqCst), HOST_WAKES.load(SeqCst), HOST_DROPS.load(SeqCst));
        let mut obj = trait_obj!(StoreWaker { stored: None } as Future);
        let blob = host_blob();
        let host_waker = HostCRefWaker { raw: &blob, clone: host_ref_clone, wake_by_ref: host_ref_wake_by_ref };
        let cref: &CRefWaker = unsafe { &*(&host_waker as *const HostCRefWaker as *const CRefWaker) };
        let poll_fn = { use cglue::ext::core::future::FutureVtblGet; obj.get_vtbl().poll() };
        let mut out = MaybeUninit::<u32>::uninit();
        let ready1 = unsafe { poll_fn(Pin::new(&mut obj).ccont_pin_mut(), cref, &mut out) };
        let after1 = (HOST_CLONES.load(SeqCst) - c0, HOST_WAKES.load(SeqCst) - w0, HOST_DROPS.load(SeqCst) - d0);
        let ready2 = unsafe { poll_fn(Pin::new(&mut obj).ccont_pin_mut(), cref, &mut out) };
        let val = if ready2 { unsafe { out.assume_init() } } else { 0 };
        drop(obj);
        let end = (HOST_CLONES.load(SeqCst) - c0, HOST_WAKES.load(SeqCst) - w0, HOST_DROPS.load(SeqCst) - d0);
        if ready1 || !ready2 || val != 42 || after1 != (1, 1, 0) || end != (1, 3, 1) {
            rep.violation(&format!("{}:foreign-executor-waker-counts", pid), &format!("round {}: polls ready {}/{} value {}; the executor saw (clones, wakes, releases) = {:?} after the first poll (want (1, 1, 0)) and {:?} at the end (want (1, 3, 1))", round, ready1, ready2, val, after1, end), "");
        }
        rep.add("foreign_executor_rounds", 1);
    }
}
