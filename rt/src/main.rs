//! Runtime-library harness: `rt <prop> <seed> <count> [key=value ...]`
//! Prints JSON lines (violation / sample / stat / done) consumed by /verif/lib.
#![allow(clippy::all)]
mod c10;
mod c11;
mod c12;
mod c13;
mod c14;
mod c15;
mod c19;
mod extfut;
mod fwaker;
mod cview;

#[cfg(all(feature = "track-alloc", not(miri)))]
#[global_allocator]
static GLOBAL: vmon::alloc::TrackingAlloc = vmon::alloc::TrackingAlloc;

pub struct Args {
    pub seed: u64,
    pub count: u64,
    pub kv: std::collections::HashMap<String, String>,
}
impl Args {
    pub fn get(&self, k: &str, d: u64) -> u64 {
        self.kv.get(k).and_then(|v| v.parse().ok()).unwrap_or(d)
    }
    pub fn has(&self, k: &str) -> bool {
        self.kv.contains_key(k)
    }
}

/// Allocator-side verdicts common to every property: any layout mismatch / unknown free seen
/// by the tracking allocator, any double drop or payload corruption seen by the registry.
pub fn global_monitors(rep: &mut vmon::Report, prop: &str) {
    for v in vmon::alloc::violations() {
        let kind = match v.kind {
            1 => "free-of-unknown-or-freed-block",
            2 => "free-layout-mismatch",
            3 => "realloc-layout-mismatch",
            _ => "alloc-table-full",
        };
        rep.violation(
            &format!("{}:alloc:{}", prop, kind),
            &format!("ptr={:#x} allocated(size={},align={}) freed-as(size={},align={})", v.ptr, v.alloc_size, v.alloc_align, v.free_size, v.free_align),
            "",
        );
    }
    if vmon::tracked::double_drops() > 0 {
        rep.violation(&format!("{}:double-drop", prop), &format!("{} payload(s) dropped more than once", vmon::tracked::double_drops()), "");
    }
    if vmon::tracked::corruptions() > 0 {
        rep.violation(&format!("{}:payload-corrupt", prop), &format!("{} payload reads saw a foreign value (use after free)", vmon::tracked::corruptions()), "");
    }
    rep.add("alloc_tracking_active", vmon::alloc::active() as u64);
    let (a, f) = vmon::alloc::counts();
    rep.add("allocs_observed", a);
    rep.add("frees_observed", f);
}

fn main() {
    let a: Vec<String> = std::env::args().collect();
    if a.len() < 4 {
        eprintln!("usage: rt <prop> <seed> <count> [k=v ...]");
        std::process::exit(64);
    }
    let mut kv = std::collections::HashMap::new();
    for s in &a[4..] {
        if let Some((k, v)) = s.split_once('=') {
            kv.insert(k.to_string(), v.to_string());
        } else {
            kv.insert(s.clone(), "1".into());
        }
    }
    let args = Args { seed: a[2].parse().unwrap_or(1), count: a[3].parse().unwrap_or(100), kv };
    // quiet panics we provoke on purpose (the hook remembers the last one)
    static LAST_PANIC: std::sync::Mutex<String> = std::sync::Mutex::new(String::new());
    std::panic::set_hook(Box::new(|info| {
        if let Ok(mut l) = LAST_PANIC.lock() {
            *l = format!("{}", info).chars().take(300).collect();
        }
    }));
    let mut rep = vmon::Report::new();
    if !["c10", "c11", "c12", "c13", "c14", "c15", "c19", "extfut", "fwaker"].contains(&a[1].as_str()) {
        eprintln!("unknown property {}", a[1]);
        std::process::exit(64);
    }
    // A panic that escapes the workload (one the workload did not provoke and catch itself) is an observation,
    // not a harness failure: on the unchanged tree none occurs; with a modified library it means a library
    // operation panicked or handed back a value the harness could not even index.
    let r = std::panic::catch_unwind(std::panic::AssertUnwindSafe(|| match a[1].as_str() {
        "c10" => c10::run(&args, &mut rep),
        "c11" => c11::run(&args, &mut rep),
        "c12" => c12::run(&args, &mut rep),
        "c13" => c13::run(&args, &mut rep),
        "c14" => c14::run(&args, &mut rep),
        "c15" => c15::run(&args, &mut rep),
        "extfut" => extfut::run(&args, &mut rep),
        "fwaker" => fwaker::run(&args, &mut rep),
        _ => c19::run(&args, &mut rep),
    }));
    if r.is_err() {
        let what = LAST_PANIC.lock().map(|l| l.clone()).unwrap_or_default();
        let what = what.replace(|c: char| c.is_ascii_digit(), "N");
        rep.violation(&format!("{}:unexpected-panic", a[1].to_uppercase()), &format!("the workload was aborted by a panic nobody provoked: {}", what), "");
    }
    global_monitors(&mut rep, &a[1].to_uppercase());
    rep.finish();
}
