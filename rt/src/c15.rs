//! C15 — callbacks and iterators deliver every item once, in order, until told to stop.
use crate::Args;
use cglue::callback::{Callbackable, FeedCallback, FromExtend, OpaqueCallback};
use cglue::iter::{AsCIterator, CIterator};
use std::collections::{BTreeSet, VecDeque};
use vmon::{tracked, Report, Rng, Tracked};

/// item with a sequence number; Tracked gives exactly-once destruction
struct Item {
    seq: usize,
    t: Tracked,
}

fn items(n: usize) -> (Vec<Item>, Vec<u64>) {
    let v: Vec<Item> = (0..n).map(|i| Item { seq: i, t: Tracked::new() }).collect();
    let ids = v.iter().map(|i| i.t.id).collect();
    (v, ids)
}

struct CustomExtend(Vec<usize>, Vec<Tracked>);
impl Extend<Item> for CustomExtend {
    fn extend<I: IntoIterator<Item = Item>>(&mut self, it: I) {
        for i in it {
            self.0.push(i.seq);
            self.1.push(i.t);
        }
    }
}

#[derive(Clone, Copy, Debug)]
enum Entry {
    FeedInto,
    FeedIntoMut,
    Extend,
    Call,
}

/// closure sink with a stop position
fn closure_case(n: usize, stop: Option<usize>, entry: Entry, rep: &mut Report) {
    let mark = tracked::mark();
    let (its, ids) = items(n);
    let mut seen: Vec<usize> = vec![];
    let mut kept: Vec<Tracked> = vec![];
    let mut calls_after_stop = 0usize;
    let mut stopped = false;
    let ret: Option<usize>;
    let mut rest_in_source: Option<Vec<usize>> = None;
    {
        let mut sink = |it: Item| -> bool {
            if stopped {
                calls_after_stop += 1;
            }
            seen.push(it.seq);
            kept.push(it.t);
            if Some(it.seq) == stop {
                stopped = true;
                false
            } else {
                true
            }
        };
        let mut cb: OpaqueCallback<Item> = (&mut sink).into();
        ret = match entry {
            Entry::FeedInto => Some(its.into_iter().feed_into(cb)),
            Entry::FeedIntoMut => Some(its.into_iter().feed_into_mut(&mut cb)),
            Entry::Extend => {
                // the source is only lent: what the callback was not offered is still in it afterwards
                let mut src = its.into_iter();
                cb.extend(src.by_ref());
                rest_in_source = Some(src.map(|i| i.seq).collect());
                None
            }
            Entry::Call => {
                // drive it by hand the way generated code does
                let mut cnt = 0;
                let mut cbr = &mut cb;
                for it in its {
                    cnt += 1;
                    if !Callbackable::call(&mut cbr, it) {
                        break;
                    }
                }
                Some(cnt)
            }
        };
    }
    let want_n = match stop {
        Some(p) if p < n => p + 1,
        _ => n,
    };
    let want: Vec<usize> = (0..want_n).collect();
    let tag = format!("n={} stop={:?} entry={:?}", n, stop, entry);
    if seen != want {
        rep.violation("C15:callback-sequence", &format!("{}: sink saw {:?}, offered prefix is {:?}", tag, seen, want), &tag);
    }
    if let Some(rest) = &rest_in_source {
        let want_rest: Vec<usize> = (want_n..n).collect();
        if *rest != want_rest {
            rep.violation("C15:source-item-lost", &format!("{}: after extend() on a borrowed source it still holds {:?}, expected {:?} (items that were never offered must stay in the source)", tag, rest, want_rest), &tag);
        }
    }
    if calls_after_stop != 0 {
        rep.violation("C15:called-after-stop", &format!("{}: {} calls after the sink returned false", tag, calls_after_stop), &tag);
    }
    if let Some(r) = ret {
        if r != want_n {
            rep.violation("C15:offered-count", &format!("{}: reported {} items offered, {} were", tag, r, want_n), &tag);
        }
    }
    // ownership: offered items are alive in `kept`, the rest was dropped exactly once
    for (i, id) in ids.iter().enumerate() {
        let d = tracked::drops_of(*id);
        let want_d = if i < want_n { 0 } else { 1 };
        if d != want_d {
            rep.violation("C15:item-ownership", &format!("{}: item {} dropped {} times (expected {})", tag, i, d, want_d), &tag);
        }
    }
    for (k, t) in kept.iter().enumerate() {
        if k < ids.len() && t.touch() != ids[k] {
            rep.violation("C15:item-identity", &format!("{}: item {} arrived as another value", tag, k), &tag);
        }
    }
    drop(kept);
    let (leaked, multi) = tracked::since(mark);
    if !leaked.is_empty() || !multi.is_empty() {
        rep.violation("C15:item-ownership", &format!("{}: leaked {:?} double-dropped {:?}", tag, leaked, multi), &tag);
    }
    rep.add("callback_cases", 1);
    rep.distinct(vmon::rng::mix(n as u64 * 100 + stop.map(|s| s + 1).unwrap_or(0) as u64, entry as u64));
}

fn collecting_case(n: usize, kind: usize, entry: Entry, rep: &mut Report) {
    let mark = tracked::mark();
    let (its, ids) = items(n);
    let tag = format!("n={} collector={} entry={:?}", n, ["Vec", "VecDeque", "CustomExtend", "zero-sized Extend", "BTreeSet<u64>"][kind], entry);
    let feed = |cb: OpaqueCallback<Item>, its: Vec<Item>| -> Option<usize> {
        let mut cb = cb;
        match entry {
            Entry::FeedInto => Some(its.into_iter().feed_into(cb)),
            Entry::FeedIntoMut => Some(its.into_iter().feed_into_mut(&mut cb)),
            Entry::Extend => {
                cb.extend(its);
                None
            }
            Entry::Call => {
                let mut c = 0;
                for it in its {
                    c += 1;
                    if !Callbackable::call(&mut cb, it) {
                        break;
                    }
                }
                Some(c)
            }
        }
    };
    let (got_seq, got_ids, ret): (Vec<usize>, Vec<u64>, Option<usize>) = match kind {
        0 => {
            let mut v: Vec<Item> = vec![];
            let r = feed((&mut v).into(), its);
            (v.iter().map(|i| i.seq).collect(), v.iter().map(|i| i.t.touch()).collect(), r)
        }
        1 => {
            let mut v: VecDeque<Item> = VecDeque::new();
            let r = feed(v.from_extend(), its);
            (v.iter().map(|i| i.seq).collect(), v.iter().map(|i| i.t.touch()).collect(), r)
        }
        2 => {
            let mut v = CustomExtend(vec![], vec![]);
            let r = feed(v.from_extend(), its);
            (v.0.clone(), v.1.iter().map(|t| t.touch()).collect(), r)
        }
        3 => {
            // zero-sized collections: a unit-struct sink that counts, and std's `impl Extend<()> for ()`
            drop(its);
            if cfg!(miri) { return; } // Miri rejects the erased reference to a zero-sized payload (DESIGN.md §2); covered natively and under ASan
            struct ZstSink;
            static SEEN: std::sync::atomic::AtomicUsize = std::sync::atomic::AtomicUsize::new(0);
            impl Extend<u64> for ZstSink { fn extend<I: IntoIterator<Item = u64>>(&mut self, it: I) { for _ in it { SEEN.fetch_add(1, std::sync::atomic::Ordering::SeqCst); } } }
            let before = SEEN.load(std::sync::atomic::Ordering::SeqCst);
            let mut z = ZstSink;
            let r = (0..n as u64).feed_into(z.from_extend());
            let got = SEEN.load(std::sync::atomic::Ordering::SeqCst) - before;
            let mut unit = ();
            let r2 = (0..n).map(|_| ()).feed_into(unit.from_extend());
            if got != n || r != n || r2 != n {
                rep.violation("C15:collector-content", &format!("{}: zero-sized collection received {} of {} items, counts reported {} and {}", tag, got, n, r, r2), &tag);
            }
            rep.add("collector_cases", 1);
            return;
        }
        _ => {
            // set semantics on plain numbers
            drop(its);
            let mut s: BTreeSet<u64> = BTreeSet::new();
            let src: Vec<u64> = (0..n as u64).map(|x| x * 7 % 5).collect();
            let want: BTreeSet<u64> = src.iter().copied().collect();
            let r = src.clone().into_iter().feed_into(s.from_extend());
            if s != want || r != n {
                rep.violation("C15:collector-content", &format!("{}: set {:?} want {:?}, count {} want {}", tag, s, want, r, n), &tag);
            }
            rep.add("collector_cases", 1);
            return;
        }
    };
    let want: Vec<usize> = (0..n).collect();
    if got_seq != want || got_ids != ids {
        rep.violation("C15:collector-content", &format!("{}: holds {:?}, offered {:?}", tag, got_seq, want), &tag);
    }
    if let Some(r) = ret {
        if r != n {
            rep.violation("C15:offered-count", &format!("{}: reported {} want {}", tag, r, n), &tag);
        }
    }
    let (leaked, multi) = tracked::since(mark);
    if !leaked.is_empty() || !multi.is_empty() {
        rep.violation("C15:item-ownership", &format!("{}: leaked {:?} double-dropped {:?}", tag, leaked, multi), &tag);
    }
    rep.add("collector_cases", 1);
    rep.distinct(vmon::rng::mix(7777 + n as u64 * 10 + kind as u64, entry as u64));
}

/// a source that is not fused: None at `gap`, then items again
struct Gappy {
    next: usize,
    end: usize,
    gap: Option<usize>,
    gapped: bool,
    made: Vec<u64>,
}
impl Iterator for Gappy {
    type Item = Item;
    fn next(&mut self) -> Option<Item> {
        if Some(self.next) == self.gap && !self.gapped {
            self.gapped = true;
            return None;
        }
        if self.next >= self.end {
            return None;
        }
        let it = Item { seq: self.next, t: Tracked::new() };
        self.made.push(it.t.id);
        self.next += 1;
        Some(it)
    }
}

fn iterator_case(n: usize, k: usize, gap: Option<usize>, rep: &mut Report) {
    let mark = tracked::mark();
    let tag = format!("n={} advance={} gap={:?}", n, k, gap);
    let mut src = Gappy { next: 0, end: n, gap, gapped: false, made: vec![] };
    let mut reference = Gappy { next: 0, end: n, gap, gapped: false, made: vec![] };
    let mut got: Vec<Option<usize>> = vec![];
    let mut want: Vec<Option<usize>> = vec![];
    let mut held: Vec<Item> = vec![];
    {
        // wrapper #1: advance k times
        let mut ci: CIterator<Item> = CIterator::new(&mut src);
        for _ in 0..k {
            let x = ci.next();
            got.push(x.as_ref().map(|i| i.seq));
            if let Some(i) = x {
                held.push(i);
            }
            want.push(reference.next().map(|i| i.seq));
        }
    }
    // source used directly
    let x = src.next();
    got.push(x.as_ref().map(|i| i.seq));
    if let Some(i) = x {
        held.push(i);
    }
    want.push(reference.next().map(|i| i.seq));
    {
        // wrapper #2 via the helper trait, drained (+2 extra calls after the end)
        let mut ci = src.as_citer();
        for _ in 0..(n + 3) {
            let x = ci.next();
            got.push(x.as_ref().map(|i| i.seq));
            if let Some(i) = x {
                held.push(i);
            }
            want.push(reference.next().map(|i| i.seq));
        }
    }
    if got != want {
        rep.violation("C15:iterator-sequence", &format!("{}: wrapper yielded {:?}, source yields {:?}", tag, got, want), &tag);
    }
    // every item the source made is held by us exactly once and undropped
    let held_ids: Vec<u64> = held.iter().map(|i| i.t.touch()).collect();
    if held_ids != src.made {
        rep.violation("C15:iterator-items", &format!("{}: received ids {:?}, source produced {:?}", tag, held_ids, src.made), &tag);
    }
    for id in &src.made {
        if tracked::drops_of(*id) != 0 {
            rep.violation("C15:iterator-items", &format!("{}: yielded item {} was dropped by the wrapper", tag, id), &tag);
        }
    }
    drop(held);
    drop(reference);
    let (leaked, multi) = tracked::since(mark);
    if !leaked.is_empty() || !multi.is_empty() {
        rep.violation("C15:iterator-items", &format!("{}: leaked {:?} double-dropped {:?}", tag, leaked, multi), &tag);
    }
    // a CIterator passed by value through an extern "C" boundary (how generated code uses it)
    extern "C" fn sum_all(it: CIterator<u64>) -> u64 {
        it.fold(0, |a, b| a.wrapping_add(b))
    }
    let mut r = (0..n as u64).map(|v| v * v);
    let w: u64 = (0..n as u64).map(|v| v * v).sum();
    if sum_all((&mut r).into()) != w {
        rep.violation("C15:iterator-sequence", &format!("{}: sum through extern C differs", tag), &tag);
    }
    rep.add("iterator_cases", 1);
    rep.distinct(vmon::rng::mix(99_000 + n as u64 * 100 + k as u64, gap.map(|g| g + 1).unwrap_or(0) as u64));
}


/// consume the wrapper through iterator adapters (nth/skip/step_by/last/count/take/...): the
/// observable result and the fate of every produced item must match the same adapter applied
/// to the source directly
fn adapter_case(n: usize, which: usize, k: usize, rep: &mut Report) {
    let mark = tracked::mark();
    let names = ["nth", "skip+collect", "step_by", "last", "count", "take+collect", "nth twice", "skip_while", "fold", "zip"];
    let tag = format!("n={} adapter={} k={}", n, names[which], k);
    fn run<I: Iterator<Item = Item>>(mut it: I, which: usize, k: usize) -> (Vec<usize>, Vec<Item>) {
        let mut kept: Vec<Item> = vec![];
        match which {
            0 => { if let Some(x) = it.nth(k) { kept.push(x); } kept.extend(it); }
            1 => kept.extend(it.skip(k)),
            2 => kept.extend(it.step_by(k + 1)),
            3 => kept.extend(it.last()),
            4 => { let c = it.count(); return (vec![c], vec![]); }
            5 => kept.extend(it.take(k)),
            6 => { kept.extend(it.nth(k)); kept.extend(it.nth(k)); kept.extend(it); }
            7 => kept.extend(it.skip_while(|i| i.seq < k)),
            8 => { let c = it.fold(0usize, |a, i| a * 31 + i.seq + 1); return (vec![c], vec![]); }
            _ => kept.extend(it.zip(0..k).map(|(a, _)| a)),
        }
        (kept.iter().map(|i| i.seq).collect(), kept)
    }
    let mut src = Gappy { next: 0, end: n, gap: None, gapped: false, made: vec![] };
    let reference = Gappy { next: 0, end: n, gap: None, gapped: false, made: vec![] };
    let (got, kept) = run(CIterator::new(&mut src), which, k);
    let (want, kept_ref) = run(reference, which, k);
    if got != want {
        rep.violation("C15:iterator-sequence", &format!("{}: through the wrapper {:?}, directly {:?}", tag, got, want), &tag);
    }
    let kept_ids: Vec<u64> = kept.iter().map(|i| i.t.touch()).collect();
    for id in &src.made {
        let d = tracked::drops_of(*id);
        let want_d = if kept_ids.contains(id) { 0 } else { 1 };
        if d != want_d {
            rep.violation("C15:iterator-items", &format!("{}: item {} produced by the source was dropped {} times, expected {} (skipped items must be destroyed, yielded ones handed over)", tag, id, d, want_d), &tag);
            break;
        }
    }
    drop(kept);
    drop(kept_ref);
    drop(src);
    let (leaked, multi) = tracked::since(mark);
    if !leaked.is_empty() || !multi.is_empty() {
        rep.violation("C15:iterator-items", &format!("{}: leaked {:?} double-dropped {:?}", tag, leaked, multi), &tag);
    }
    rep.add("iterator_adapter_cases", 1);
    rep.distinct(vmon::rng::mix(55_000 + n as u64 * 1000 + which as u64 * 50, k as u64));
}

/// The same callback fed several times (batches): a `false` ends one feeding, not the callback.
/// `stops[r]` = index within round r at which the sink returns false (None: takes the whole round).
fn rounds_case(sizes: &[usize], stops: &[Option<usize>], by_ref: bool, rep: &mut Report) {
    let mark = tracked::mark();
    let tag = format!("rounds sizes={:?} stops={:?} entry={}", sizes, stops, if by_ref { "feed_into_mut" } else { "call" });
    let mut seen: Vec<(usize, usize)> = vec![];
    let mut kept: Vec<Tracked> = vec![];
    let mut want: Vec<(usize, usize)> = vec![];
    let mut counts: Vec<usize> = vec![];
    let mut want_counts: Vec<usize> = vec![];
    {
        let round = std::cell::Cell::new(0usize);
        let mut sink = |it: Item| -> bool {
            seen.push((round.get(), it.seq));
            kept.push(it.t);
            Some(it.seq) != stops[round.get()]
        };
        let mut cb: OpaqueCallback<Item> = (&mut sink).into();
        for (r, n) in sizes.iter().enumerate() {
            round.set(r);
            let (its, _) = items(*n);
            let offered = match stops[r] { Some(p) if p < *n => p + 1, _ => *n };
            for i in 0..offered { want.push((r, i)); }
            want_counts.push(offered);
            if by_ref {
                counts.push(its.into_iter().feed_into_mut(&mut cb));
            } else {
                let mut cnt = 0;
                for it in its {
                    cnt += 1;
                    if !cb.call(it) { break; }
                }
                counts.push(cnt);
            }
        }
    }
    if seen != want {
        rep.violation("C15:callback-sequence", &format!("{}: over all rounds the sink saw (round,item) {:?}, offered were {:?}", tag, seen, want), &tag);
    }
    if counts != want_counts {
        rep.violation("C15:offered-count", &format!("{}: per-round counts {:?}, expected {:?}", tag, counts, want_counts), &tag);
    }
    drop(kept);
    let (leaked, multi) = tracked::since(mark);
    if !leaked.is_empty() || !multi.is_empty() {
        rep.violation("C15:item-ownership", &format!("{}: leaked {:?} double-dropped {:?}", tag, leaked, multi), &tag);
    }
    rep.add("callback_round_cases", 1);
}

pub fn run(args: &Args, rep: &mut Report) {
    let maxn = args.get("maxn", 7) as usize;
    // two and three feedings of one callback, every stop position in the first two rounds
    for a in 0..=3usize {
        for b in 0..=3usize {
            for sa in 0..=a {
                for sb in 0..=b {
                    let stops = [if sa < a { Some(sa) } else { None }, if sb < b { Some(sb) } else { None }, None];
                    for by_ref in [false, true] {
                        rounds_case(&[a, b], &stops[..2], by_ref, rep);
                        rounds_case(&[a, b, 2], &stops, by_ref, rep);
                    }
                }
            }
        }
    }
    let entries = [Entry::FeedInto, Entry::FeedIntoMut, Entry::Extend, Entry::Call];
    for n in 0..=maxn {
        for e in entries {
            closure_case(n, None, e, rep);
            for p in 0..n {
                closure_case(n, Some(p), e, rep);
            }
            for kind in 0..5 {
                collecting_case(n, kind, e, rep);
            }
        }
        for which in 0..10 {
            for k in 0..=n + 1 {
                adapter_case(n, which, k, rep);
            }
        }
        for k in 0..=n + 1 {
            iterator_case(n, k, None, rep);
            for g in 0..=n {
                iterator_case(n, k, Some(g), rep);
            }
        }
    }
    // seeded long cases
    let mut rng = Rng::new(args.seed);
    for _ in 0..args.count {
        let n = rng.below(200);
        let stop = if rng.chance(1, 3) { None } else { Some(rng.below(n + 1)) };
        closure_case(n, stop, entries[rng.below(4)], rep);
        collecting_case(n, rng.below(4), entries[rng.below(4)], rep);
        let g = if rng.chance(1, 2) { None } else { Some(rng.below(n + 1)) };
        iterator_case(n, rng.below(n + 2), g, rep);
    }
    rep.sample("C15 case grid", &format!("items 0..={} x stop position (never, each index) x entry (feed_into, feed_into_mut, Extend::extend, Callbackable::call) x sink (closure, Vec, VecDeque, custom Extend, BTreeSet); iterators: n x advance k x non-fused gap position", maxn));
}
