//! C10 — CArc / CArcSome behave as Arc / Option<Arc>.
//! Oracle: sequential model (allocation -> number of live handles) stepped with a real pool;
//! `Weak::strong_count` is the real count, the `Tracked` registry gives the destruction moment,
//! forged handles with counting clone/drop stubs show which functions the library calls.
use crate::cview::{forge, CArcView};
use crate::Args;
use cglue::arc::{CArc, CArcSome};
use cglue::trait_group::{c_void, Opaquable};
use std::sync::atomic::{AtomicI64, AtomicU64, Ordering};
use std::sync::{Arc, Weak};
use vmon::{tracked, Report, Rng, Tracked};

enum H {
    A(CArc<Tracked>),
    S(CArcSome<Tracked>),
    OA(CArc<c_void>),
    OS(CArcSome<c_void>),
    Std(Arc<Tracked>),
}

struct Slot {
    h: H,
    alloc: Option<usize>,
}

struct AllocInfo {
    weak: Weak<Tracked>,
    id: u64,
    addr: usize,
}

struct World {
    pool: Vec<Slot>,
    allocs: Vec<AllocInfo>,
    trace: Vec<String>,
}

const MAX_POOL: usize = 5;

fn weak_of_ptr(p: *const Tracked) -> Weak<Tracked> {
    // the handle must hold a pointer obtained from Arc::into_raw: that is the claim under test
    let a = unsafe { Arc::from_raw(p) };
    let w = Arc::downgrade(&a);
    std::mem::forget(a);
    w
}

impl World {
    fn new() -> Self {
        World { pool: vec![], allocs: vec![], trace: vec![] }
    }
    fn new_arc(&mut self) -> (Arc<Tracked>, usize) {
        let a = Arc::new(Tracked::new());
        let idx = self.allocs.len();
        self.allocs.push(AllocInfo { weak: Arc::downgrade(&a), id: a.id, addr: Arc::as_ptr(&a) as usize });
        (a, idx)
    }
    fn model_count(&self, a: usize) -> usize {
        self.pool.iter().filter(|s| s.alloc == Some(a)).count()
    }
    fn push(&mut self, h: H, alloc: Option<usize>) {
        self.pool.push(Slot { h, alloc });
    }

    /// one step; `kind`/`arg` are interpreted modulo what is possible so that every (kind,arg)
    /// sequence is a valid history
    fn step(&mut self, kind: u8, arg: u8) {
        let n = self.pool.len();
        let i = if n == 0 { 0 } else { arg as usize % n };
        match kind % 16 {
            0 => {
                // from value
                if n >= MAX_POOL {
                    return;
                }
                let t = Tracked::new();
                let id = t.id;
                if arg % 2 == 0 {
                    let h = CArc::from(t);
                    let p = h.as_ref().map(|r| r as *const Tracked).unwrap_or(std::ptr::null());
                    let idx = self.allocs.len();
                    self.allocs.push(AllocInfo { weak: weak_of_ptr(p), id, addr: p as usize });
                    self.push(H::A(h), Some(idx));
                    self.trace.push("CArc::from(value)".into());
                } else {
                    let h = CArcSome::from(t);
                    let p = &*h as *const Tracked;
                    let idx = self.allocs.len();
                    self.allocs.push(AllocInfo { weak: weak_of_ptr(p), id, addr: p as usize });
                    self.push(H::S(h), Some(idx));
                    self.trace.push("CArcSome::from(value)".into());
                }
            }
            1 => {
                // from Arc / Option<Arc>
                if n >= MAX_POOL {
                    return;
                }
                match arg % 4 {
                    0 => {
                        let (a, idx) = self.new_arc();
                        self.push(H::A(CArc::from(a)), Some(idx));
                        self.trace.push("CArc::from(Arc)".into());
                    }
                    1 => {
                        let (a, idx) = self.new_arc();
                        self.push(H::S(CArcSome::from(a)), Some(idx));
                        self.trace.push("CArcSome::from(Arc)".into());
                    }
                    2 => {
                        let (a, idx) = self.new_arc();
                        self.push(H::A(CArc::from(Some(a))), Some(idx));
                        self.trace.push("CArc::from(Some(Arc))".into());
                    }
                    _ => {
                        self.push(H::A(CArc::from(None::<Arc<Tracked>>)), None);
                        self.trace.push("CArc::from(None)".into());
                    }
                }
            }
            2 | 3 => {
                // clone
                if n == 0 || n >= MAX_POOL {
                    return;
                }
                let alloc = self.pool[i].alloc;
                let h = match &self.pool[i].h {
                    H::A(h) => H::A(h.clone()),
                    H::S(h) => H::S(h.clone()),
                    H::OA(h) => H::OA(h.clone()),
                    H::OS(h) => H::OS(h.clone()),
                    H::Std(h) => H::Std(h.clone()),
                };
                self.push(h, alloc);
                self.trace.push(format!("clone #{}", i));
            }
            4 => {
                // take (CArc only)
                if n == 0 || n >= MAX_POOL {
                    return;
                }
                let alloc = self.pool[i].alloc;
                let taken = match &mut self.pool[i].h {
                    H::A(h) => Some(H::A(h.take())),
                    H::OA(h) => Some(H::OA(h.take())),
                    _ => None,
                };
                if let Some(t) = taken {
                    self.pool[i].alloc = None;
                    self.push(t, alloc);
                    self.trace.push(format!("take #{}", i));
                }
            }
            5 | 6 => {
                // transpose either way (consumes the handle)
                if n == 0 {
                    return;
                }
                let Slot { h, alloc } = self.pool.swap_remove(i);
                match h {
                    H::A(h) => match h.transpose() {
                        Some(s) => {
                            self.push(H::S(s), alloc);
                            self.trace.push(format!("#{} CArc->Some(CArcSome)", i));
                        }
                        None => {
                            if alloc.is_some() {
                                self.trace.push("VIOL: non-empty CArc transposed to None".into());
                                self.allocs.push(AllocInfo { weak: Weak::new(), id: u64::MAX, addr: 0 });
                            }
                            self.trace.push(format!("#{} CArc(empty)->None", i));
                        }
                    },
                    H::OA(h) => match h.transpose() {
                        Some(s) => {
                            self.push(H::OS(s), alloc);
                            self.trace.push(format!("#{} opaque CArc->Some", i));
                        }
                        None => {
                            self.trace.push(format!("#{} opaque CArc(empty)->None", i));
                        }
                    },
                    H::S(h) => {
                        self.push(H::A(h.transpose()), alloc);
                        self.trace.push(format!("#{} CArcSome->CArc", i));
                    }
                    H::OS(h) => {
                        self.push(H::OA(h.transpose()), alloc);
                        self.trace.push(format!("#{} opaque CArcSome->CArc", i));
                    }
                    H::Std(h) => {
                        let x: Option<CArcSome<Tracked>> = CArc::from(Some(h)).into();
                        match x {
                            Some(s) => self.push(H::S(s), alloc),
                            None => self.trace.push("VIOL: CArc::from(Some(arc)) transposed to None".into()),
                        }
                        self.trace.push(format!("#{} Arc->CArc->Option<CArcSome>", i));
                    }
                }
            }
            7 => {
                // into_opaque
                if n == 0 {
                    return;
                }
                let Slot { h, alloc } = self.pool.swap_remove(i);
                let h = match h {
                    H::A(h) => H::OA(h.into_opaque()),
                    H::S(h) => H::OS(h.into_opaque()),
                    o => o,
                };
                self.push(h, alloc);
                self.trace.push(format!("into_opaque #{}", i));
            }
            8 => {
                // into_arc / back
                if n == 0 {
                    return;
                }
                let Slot { h, alloc } = self.pool.swap_remove(i);
                let h = match h {
                    H::S(h) => H::Std(unsafe { h.into_arc() }),
                    H::Std(h) => {
                        if arg % 2 == 0 {
                            H::A(CArc::from(h))
                        } else {
                            H::S(CArcSome::from(h))
                        }
                    }
                    o => o,
                };
                self.push(h, alloc);
                self.trace.push(format!("into_arc/from_arc #{}", i));
            }
            9 => {
                if n >= MAX_POOL {
                    return;
                }
                if arg % 2 == 0 {
                    self.push(H::A(CArc::default()), None);
                } else {
                    self.push(H::OA(CArc::default()), None);
                }
                self.trace.push("default".into());
            }
            10 | 11 => {
                // deref happens in check(); here: AsRef<Option<&T>> on a clone-free path
                self.trace.push("deref-all".into());
            }
            _ => {
                // drop
                if n == 0 {
                    return;
                }
                let s = self.pool.swap_remove(i);
                drop(s);
                self.trace.push(format!("drop #{}", i));
            }
        }
    }

    /// compare the real world with the model; returns a description of the first difference
    fn check(&self) -> Option<(String, String)> {
        if self.trace.iter().any(|t| t.starts_with("VIOL")) {
            return Some(("C10:transpose-lost-handle".into(), "a non-empty handle transposed to None".into()));
        }
        for (a, info) in self.allocs.iter().enumerate() {
            if info.id == u64::MAX {
                continue;
            }
            let want = self.model_count(a);
            let got = info.weak.strong_count();
            if got != want {
                return Some((
                    if got > want { "C10:count-too-high".into() } else { "C10:count-too-low".into() },
                    format!("allocation {} (payload id {}): strong_count={} but {} live handles", a, info.id, got, want),
                ));
            }
            let drops = tracked::drops_of(info.id);
            if want > 0 && drops != 0 {
                return Some(("C10:payload-dropped-while-handles-live".into(), format!("allocation {} dropped {} times with {} live handles", a, drops, want)));
            }
            if want == 0 && drops != 1 {
                return Some(("C10:payload-not-dropped-exactly-once".into(), format!("allocation {} has no handles, payload dropped {} times", a, drops)));
            }
        }
        for (i, s) in self.pool.iter().enumerate() {
            let addr: Option<usize> = match &s.h {
                H::A(h) => h.as_ref().map(|r| r as *const Tracked as usize),
                H::S(h) => {
                    let d: &Tracked = &**h;
                    let r: &Tracked = h.as_ref();
                    if d as *const _ != r as *const _ {
                        return Some(("C10:deref-asref-differ".into(), format!("handle {}", i)));
                    }
                    Some(d as *const Tracked as usize)
                }
                H::OA(h) => h.as_ref().map(|r| r as *const c_void as usize),
                H::OS(h) => Some(&**h as *const c_void as usize),
                H::Std(h) => Some(Arc::as_ptr(h) as usize),
            };
            let want = s.alloc.map(|a| self.allocs[a].addr);
            if addr != want {
                return Some(("C10:handle-address".into(), format!("handle {} dereferences to {:?}, allocation is at {:?}", i, addr, want)));
            }
            // touch the payload through typed handles (UAF detectors see it)
            match &s.h {
                H::A(h) => {
                    if let Some(r) = h.as_ref() {
                        if r.touch() != self.allocs[s.alloc.unwrap()].id {
                            return Some(("C10:handle-wrong-payload".into(), format!("handle {}", i)));
                        }
                    }
                }
                H::S(h) => {
                    if h.touch() != self.allocs[s.alloc.unwrap()].id {
                        return Some(("C10:handle-wrong-payload".into(), format!("handle {}", i)));
                    }
                }
                _ => {}
            }
        }
        None
    }
}

fn run_history(ops: &[(u8, u8)], rep: &mut Report) -> bool {
    let mut w = World::new();
    for (k, (kind, arg)) in ops.iter().enumerate() {
        w.step(*kind, *arg);
        if let Some((sig, d)) = w.check() {
            rep.violation(&sig, &format!("{} after step {} of history {:?}; trace {:?}", d, k, ops, w.trace), &format!("{:?}", ops));
            std::mem::forget(w);
            return false;
        }
    }
    // final: drop everything, in pool order
    while !w.pool.is_empty() {
        let s = w.pool.swap_remove(0);
        drop(s);
        if let Some((sig, d)) = w.check() {
            rep.violation(&sig, &format!("{} during final drops of history {:?}; trace {:?}", d, ops, w.trace), &format!("{:?}", ops));
            std::mem::forget(w);
            return false;
        }
    }
    rep.add("ops", ops.len() as u64);
    rep.add("allocations", w.allocs.len() as u64);
    true
}

// ------------------------------------------------------------------------------------------
// forged handles: the library must clone/drop through the stored function pointers
static F_CLONES: AtomicU64 = AtomicU64::new(0);
static F_DROPS: AtomicU64 = AtomicU64::new(0);
static F_BAD: AtomicU64 = AtomicU64::new(0);

#[repr(C)]
struct Forged {
    refs: AtomicI64,
    magic: u64,
}

unsafe extern "C" fn f_clone(p: *const Forged) -> *const Forged {
    F_CLONES.fetch_add(1, Ordering::SeqCst);
    if p.is_null() || (*p).magic != 0xF0F0 || (*p).refs.fetch_add(1, Ordering::SeqCst) <= 0 {
        F_BAD.fetch_add(1, Ordering::SeqCst);
    }
    p
}
unsafe extern "C" fn f_drop(p: *const Forged) {
    F_DROPS.fetch_add(1, Ordering::SeqCst);
    if p.is_null() || (*p).magic != 0xF0F0 || (*p).refs.fetch_sub(1, Ordering::SeqCst) <= 0 {
        F_BAD.fetch_add(1, Ordering::SeqCst);
    }
}

// a creator that hands out one handle per reference: clone_fn returns a new node, drop_fn retires exactly the node it is given
static H_LIVE: AtomicI64 = AtomicI64::new(0);
unsafe extern "C" fn h_clone(p: *const Forged) -> *const Forged {
    F_CLONES.fetch_add(1, Ordering::SeqCst);
    if p.is_null() || (*p).magic != 0xF0F0 || (*p).refs.load(Ordering::SeqCst) != 1 {
        F_BAD.fetch_add(1, Ordering::SeqCst); // cloned through a retired handle
    }
    H_LIVE.fetch_add(1, Ordering::SeqCst);
    // nodes are freed only after the whole history (a stale handle is diagnosed, not undefined behaviour)
    let n: &'static Forged = Box::leak(Box::new(Forged { refs: AtomicI64::new(1), magic: 0xF0F0 }));
    H_NODES.lock().unwrap().push(n as *const Forged as usize);
    n
}
static H_NODES: std::sync::Mutex<Vec<usize>> = std::sync::Mutex::new(Vec::new());
unsafe extern "C" fn h_drop(p: *const Forged) {
    F_DROPS.fetch_add(1, Ordering::SeqCst);
    if p.is_null() || (*p).magic != 0xF0F0 || (*p).refs.fetch_sub(1, Ordering::SeqCst) != 1 {
        F_BAD.fetch_add(1, Ordering::SeqCst); // retired twice
    }
    H_LIVE.fetch_sub(1, Ordering::SeqCst);
}

/// a populated handle without a release function (a value the creator never frees, e.g. a static): dropping it must call nothing and touch nothing
fn no_drop_fn_case(rep: &mut Report) {
    #[repr(C)]
    struct Guarded { before: [u64; 2], value: Forged, after: u64 }
    let g: &'static Guarded = Box::leak(Box::new(Guarded { before: [0x5eed_0000, 0x5eed_0001], value: Forged { refs: AtomicI64::new(1), magic: 0xF0F0 }, after: 0x5eed_0002 }));
    let (c0, d0) = (F_CLONES.load(Ordering::SeqCst), F_DROPS.load(Ordering::SeqCst));
    let a: CArc<Forged> = unsafe { forge(CArcView { instance: &g.value as *const Forged, clone_fn: Some(f_clone), drop_fn: None }) };
    let b = a.clone();
    drop(a);
    drop(b.into_opaque());
    let (c, d) = (F_CLONES.load(Ordering::SeqCst) - c0, F_DROPS.load(Ordering::SeqCst) - d0);
    let words = unsafe { [std::ptr::read_volatile(&g.before[0]), std::ptr::read_volatile(&g.before[1]), std::ptr::read_volatile(&g.after)] };
    if words != [0x5eed_0000, 0x5eed_0001, 0x5eed_0002] || g.value.magic != 0xF0F0 || c != 1 || d != 0 {
        rep.violation("C10:handle-without-drop-fn", &format!("a foreign-made handle with clone_fn but no drop_fn was cloned and dropped: clone_fn calls {} (want 1), drop_fn calls {}, words around the foreign value {:x?} (want [5eed0000, 5eed0001, 5eed0002])", c, d, words), "");
    }
    rep.add("no_drop_fn_cases", 1);
    drop(unsafe { Box::from_raw(g as *const Guarded as *mut Guarded) });
}

/// handles destroyed while their thread unwinds are released like any other
fn panic_drop_case(rep: &mut Report) {
    let a = Arc::new(Tracked::new());
    let weak = Arc::downgrade(&a);
    let root: CArc<Tracked> = CArc::from(a);
    let (c1, c2) = (root.clone(), root.clone().transpose().expect("non-empty"));
    let before = weak.strong_count();
    let r = std::panic::catch_unwind(std::panic::AssertUnwindSafe(move || {
        let _hold = (c1, c2);
        let inner = std::thread::spawn(move || 0u8).join().unwrap();
        if inner == 0 { panic!("provoked: unwinding with live handles"); }
    }));
    let after = weak.strong_count();
    if r.is_ok() || before != 3 || after != 1 {
        rep.violation("C10:count-after-unwind", &format!("two handles dropped by an unwinding scope: strong count {} before, {} after (want 3 and 1)", before, after), "");
    }
    drop(root);
    if weak.strong_count() != 0 { rep.violation("C10:count-after-unwind", "value still referenced after the last handle", ""); }
    rep.add("unwind_drop_cases", 1);
}

fn rep_no_drop_once() -> bool { static ONCE: AtomicU64 = AtomicU64::new(0); ONCE.fetch_add(1, Ordering::SeqCst) % 64 == 0 }

fn forged_history(rng: &mut Rng, len: usize, rep: &mut Report) {
    let per_ref = rng.below(2) == 1;
    let cell: &'static Forged = Box::leak(Box::new(Forged { refs: AtomicI64::new(1), magic: 0xF0F0 }));
    let c0 = F_CLONES.load(Ordering::SeqCst);
    let d0 = F_DROPS.load(Ordering::SeqCst);
    let h0 = H_LIVE.load(Ordering::SeqCst);
    if per_ref { H_LIVE.fetch_add(1, Ordering::SeqCst); }
    let first: CArc<Forged> = if per_ref { unsafe { forge(CArcView { instance: cell as *const Forged, clone_fn: Some(h_clone), drop_fn: Some(h_drop) }) } }
    else { unsafe { forge(CArcView { instance: cell as *const Forged, clone_fn: Some(f_clone), drop_fn: Some(f_drop) }) } };
    enum F {
        A(CArc<Forged>),
        S(CArcSome<Forged>),
        OA(CArc<c_void>),
    }
    let mut pool: Vec<(F, bool)> = vec![(F::A(first), true)]; // (handle, non-empty)
    let (mut want_clones, mut want_drops) = (0u64, 0u64);
    let mut trace = vec![];
    for _ in 0..len {
        if pool.is_empty() {
            break;
        }
        let i = rng.below(pool.len());
        match rng.below(7) {
            0 | 1 if pool.len() < 6 => {
                let ne = pool[i].1;
                let h = match &pool[i].0 {
                    F::A(h) => F::A(h.clone()),
                    F::S(h) => F::S(h.clone()),
                    F::OA(h) => F::OA(h.clone()),
                };
                if ne {
                    want_clones += 1;
                }
                pool.push((h, ne));
                trace.push("clone");
            }
            2 if pool.len() < 6 => {
                let ne = pool[i].1;
                let t = match &mut pool[i].0 {
                    F::A(h) => Some(F::A(h.take())),
                    F::OA(h) => Some(F::OA(h.take())),
                    _ => None,
                };
                if let Some(t) = t {
                    pool[i].1 = false;
                    pool.push((t, ne));
                    trace.push("take");
                }
            }
            3 => {
                let (h, ne) = pool.swap_remove(i);
                match h {
                    F::A(h) => {
                        if let Some(s) = h.transpose() {
                            pool.push((F::S(s), ne));
                        }
                    }
                    F::S(s) => pool.push((F::A(s.transpose()), ne)),
                    F::OA(h) => pool.push((F::OA(h), ne)),
                }
                trace.push("transpose");
            }
            4 => {
                let (h, ne) = pool.swap_remove(i);
                match h {
                    F::A(h) => pool.push((F::OA(h.into_opaque()), ne)),
                    o => pool.push((o, ne)),
                }
                trace.push("into_opaque");
            }
            _ => {
                let (h, ne) = pool.swap_remove(i);
                drop(h);
                if ne {
                    want_drops += 1;
                }
                trace.push("drop");
            }
        }
        let live = pool.iter().filter(|p| p.1).count() as i64;
        let refs = if per_ref { H_LIVE.load(Ordering::SeqCst) - h0 } else { cell.refs.load(Ordering::SeqCst) };
        let (c, d) = (F_CLONES.load(Ordering::SeqCst) - c0, F_DROPS.load(Ordering::SeqCst) - d0);
        if c != want_clones || d != want_drops || refs != live || F_BAD.load(Ordering::SeqCst) != 0 {
            rep.violation(
                "C10:stored-fn-pointers-not-used-exactly-once",
                &format!("forged handle ({}): clone_fn calls {} (want {}), drop_fn calls {} (want {}), refs {} live {} bad {} trace {:?}", if per_ref { "one handle per reference" } else { "shared cell" }, c, want_clones, d, want_drops, refs, live, F_BAD.load(Ordering::SeqCst), trace),
                "",
            );
            std::mem::forget(pool);
            return; // the cell is deliberately leaked: handles pointing to it were forgotten
        }
    }
    let rest = pool.iter().filter(|p| p.1).count() as u64;
    drop(pool);
    let d = F_DROPS.load(Ordering::SeqCst) - d0;
    let left = if per_ref { H_LIVE.load(Ordering::SeqCst) - h0 } else { cell.refs.load(Ordering::SeqCst) };
    if d != want_drops + rest || left != 0 || F_BAD.load(Ordering::SeqCst) != 0 {
        rep.violation("C10:stored-fn-pointers-not-used-exactly-once", &format!("forged handle final: drop_fn calls {} want {}, refs {}", d, want_drops + rest, cell.refs.load(Ordering::SeqCst)), "");
    }
    // no handle is left: release the cell itself (per-reference nodes stay leaked on purpose)
    drop(unsafe { Box::from_raw(cell as *const Forged as *mut Forged) });
    for n in H_NODES.lock().unwrap().drain(..) { drop(unsafe { Box::from_raw(n as *mut Forged) }); }
    if per_ref { rep.add("forged_per_reference_histories", 1); }
    rep.add("forged_ops", trace.len() as u64);
    rep.add("forged_clone_fn_calls", want_clones);
    rep.add("forged_drop_fn_calls", want_drops + rest);
}

// ------------------------------------------------------------------------------------------
fn concurrent(threads: usize, ops: usize, seed: u64, rep: &mut Report) {
    let a = Arc::new(Tracked::new());
    let id = a.id;
    let weak = Arc::downgrade(&a);
    let root = CArc::from(a);
    let mut joins = vec![];
    for t in 0..threads {
        let mine = root.clone();
        let some: CArcSome<Tracked> = root.clone().transpose().unwrap();
        joins.push(std::thread::spawn(move || {
            let mut rng = Rng::new(seed ^ (t as u64 + 1).wrapping_mul(0x1234_5678_9abc));
            let mut pool: Vec<CArc<Tracked>> = vec![mine];
            let mut spool: Vec<CArcSome<Tracked>> = vec![some];
            let mut n = 0u64;
            for _ in 0..ops {
                match rng.below(6) {
                    0 if pool.len() < 8 => {
                        let i = rng.below(pool.len());
                        let c = pool[i].clone();
                        pool.push(c);
                    }
                    1 if spool.len() < 8 => {
                        let i = rng.below(spool.len());
                        let c = spool[i].clone();
                        spool.push(c);
                    }
                    2 if pool.len() > 1 => {
                        let i = rng.below(pool.len());
                        drop(pool.swap_remove(i));
                    }
                    3 if spool.len() > 1 => {
                        let i = rng.below(spool.len());
                        drop(spool.swap_remove(i));
                    }
                    4 => {
                        let i = rng.below(spool.len());
                        n += spool[i].touch() & 1;
                    }
                    _ => {
                        let i = rng.below(pool.len());
                        if let Some(r) = pool[i].as_ref() {
                            n += r.touch() & 1;
                        }
                        std::thread::yield_now();
                    }
                }
            }
            n
        }));
    }
    for j in joins {
        let _ = j.join();
    }
    let c = weak.strong_count();
    if c != 1 {
        rep.violation("C10:concurrent-count", &format!("after {} threads x {} ops, strong_count = {} (want 1: only the root handle)", threads, ops, c), &format!("seed={}", seed));
    }
    if tracked::drops_of(id) != 0 {
        rep.violation("C10:payload-dropped-while-handles-live", "concurrent: payload dropped while root handle lives", "");
    }
    drop(root);
    if weak.strong_count() != 0 || tracked::drops_of(id) != 1 {
        rep.violation("C10:payload-not-dropped-exactly-once", &format!("concurrent: after last handle count={} drops={}", weak.strong_count(), tracked::drops_of(id)), "");
    }
    rep.add("concurrent_runs", 1);
    rep.add("concurrent_thread_ops", (threads * ops) as u64);
}


// ---- payloads with large alignment: the distance between the reference count and the value
// ---- depends on align_of::<T>(); everything the model says for `Tracked` must hold for them too
macro_rules! aligned_payload {
    ($name:ident, $al:literal) => {
        #[repr(align($al))]
        pub struct $name(pub Tracked, pub u8);
        impl AsRef<Tracked> for $name {
            fn as_ref(&self) -> &Tracked {
                &self.0
            }
        }
        impl From<Tracked> for $name {
            fn from(t: Tracked) -> Self {
                $name(t, 0x5a)
            }
        }
    };
}
aligned_payload!(Al16, 16);
aligned_payload!(Al32, 32);
aligned_payload!(Al64, 64);
aligned_payload!(Al128, 128);
aligned_payload!(Al4096, 4096);

enum HA<P: 'static> {
    A(CArc<P>),
    S(CArcSome<P>),
    O(CArc<cglue::trait_group::c_void>),
}

fn aligned_history<P: AsRef<Tracked> + From<Tracked> + Send + Sync + 'static>(name: &str, rng: &mut Rng, len: usize, rep: &mut Report) {
    let t = Tracked::new();
    let id = t.id;
    let arc: Arc<P> = Arc::new(P::from(t));
    let addr = &*arc as *const P as usize;
    if addr % std::mem::align_of::<P>() != 0 {
        rep.violation("C10:harness", "misaligned payload", name);
    }
    let weak = Arc::downgrade(&arc);
    let mut pool: Vec<HA<P>> = vec![HA::A(CArc::from(arc))];
    let mut trace = vec![];
    for _ in 0..len {
        if pool.is_empty() {
            break;
        }
        let i = rng.below(pool.len());
        let op = rng.below(8);
        trace.push((op, i));
        match op {
            0 | 1 => {
                let c = match &pool[i] { HA::A(h) => HA::A(h.clone()), HA::S(h) => HA::S(h.clone()), HA::O(h) => HA::O(h.clone()) };
                pool.push(c);
            }
            2 => {
                let h = pool.swap_remove(i);
                pool.push(match h { HA::A(h) => match h.transpose() { Some(s) => HA::S(s), None => continue }, HA::S(s) => HA::A(CArc::from(Some(s))), o => o });
            }
            3 => {
                let h = pool.swap_remove(i);
                pool.push(match h { HA::A(h) => HA::O(h.into_opaque()), HA::S(s) => HA::O(CArc::<P>::from(Some(s)).into_opaque()), o => o });
            }
            4 => {
                // take: the handle becomes empty, the taken one lives on
                if let HA::A(h) = &mut pool[i] {
                    let taken = h.take();
                    let empty_now = h.as_ref().is_none();
                    if !empty_now { rep.violation("C10:take-left-a-handle", &format!("{}: CArc::take left the source non-empty", name), &format!("{:?}", trace)); }
                    pool[i] = HA::A(taken);
                }
            }
            5 => match &pool[i] {
                HA::A(h) => { if h.as_ref().map(|p| p as *const P as usize) != Some(addr) || h.as_ref().map(|p| p.as_ref().id) != Some(id) { rep.violation("C10:deref-other-value", &format!("{}: handle dereferences to another value", name), &format!("{:?}", trace)); } }
                HA::S(h) => { let p: &P = &**h; if p as *const P as usize != addr || p.as_ref().id != id { rep.violation("C10:deref-other-value", &format!("{}: handle dereferences to another value", name), &format!("{:?}", trace)); } }
                HA::O(_) => {}
            },
            _ => { drop(pool.swap_remove(i)); }
        }
        let live = pool.len();
        let real = weak.strong_count();
        if real != live {
            rep.violation(if real > live { "C10:count-too-high" } else { "C10:count-too-low" }, &format!("{} (align {}): strong count {} with {} live handles after ops {:?}", name, std::mem::align_of::<P>(), real, live, trace), &format!("{:?}", trace));
            // do not continue with a count we know is wrong: dropping the pool could free live memory
            std::mem::forget(pool);
            return;
        }
        if live > 0 && tracked::drops_of(id) != 0 {
            rep.violation("C10:payload-dropped-early", &format!("{}: payload destroyed while {} handles are alive", name, live), &format!("{:?}", trace));
            std::mem::forget(pool);
            return;
        }
    }
    drop(pool);
    if weak.strong_count() != 0 || tracked::drops_of(id) != 1 {
        rep.violation("C10:payload-not-dropped-exactly-once", &format!("{}: after the last handle strong={} drops={}", name, weak.strong_count(), tracked::drops_of(id)), &format!("{:?}", trace));
    }
    rep.add("aligned_histories", 1);
}

fn aligned(rng: &mut Rng, n: u64, rep: &mut Report) {
    for k in 0..n {
        let len = 1 + rng.below(40);
        match k % 5 {
            0 => aligned_history::<Al16>("Al16", rng, len, rep),
            1 => aligned_history::<Al32>("Al32", rng, len, rep),
            2 => aligned_history::<Al64>("Al64", rng, len, rep),
            3 => aligned_history::<Al128>("Al128", rng, len, rep),
            _ => aligned_history::<Al4096>("Al4096", rng, len, rep),
        }
    }
}

// ---- thread-safety parity with Arc: CArc<T>/CArcSome<T> may be Send (Sync) only where Arc<T> is.
// ---- Read out with the inherent-const-shadows-trait-const probe: always compiles, decided at run time.
mod parity {
    use super::*;
    use std::cell::Cell;
    use std::marker::PhantomData;
    pub struct IsSend<T: ?Sized>(pub PhantomData<T>);
    pub struct IsSync<T: ?Sized>(pub PhantomData<T>);
    pub trait No { const YES: bool = false; }
    impl<T: ?Sized> No for IsSend<T> {}
    impl<T: ?Sized> No for IsSync<T> {}
    impl<T: ?Sized + Send> IsSend<T> { pub const YES: bool = true; }
    impl<T: ?Sized + Sync> IsSync<T> { pub const YES: bool = true; }
    pub struct SendSync(pub u64);
    pub struct SendNotSync(pub Cell<u64>);
    pub struct SyncNotSend(pub PhantomData<std::sync::MutexGuard<'static, u64>>, pub u64);
    pub struct Neither(pub *const u8);
    macro_rules! row {
        ($rep:expr, $t:ty, $name:expr) => {{
            let arc = (IsSend::<Arc<$t>>::YES, IsSync::<Arc<$t>>::YES);
            let carc = (IsSend::<CArc<$t>>::YES, IsSync::<CArc<$t>>::YES);
            let some = (IsSend::<CArcSome<$t>>::YES, IsSync::<CArcSome<$t>>::YES);
            for (what, got) in [("CArc", carc), ("CArcSome", some)] {
                if got.0 && !arc.0 { $rep.violation(&format!("C10:more-thread-safe-than-Arc:{}:{}:Send", what, $name), &format!("{}<{}> is Send, Arc<{}> is not", what, $name, $name), ""); }
                if got.1 && !arc.1 { $rep.violation(&format!("C10:more-thread-safe-than-Arc:{}:{}:Sync", what, $name), &format!("{}<{}> is Sync, Arc<{}> is not", what, $name, $name), ""); }
            }
            $rep.add("parity_cells", 4);
            $rep.sample("C10 auto-trait parity row (payload: Arc / CArc / CArcSome as (Send,Sync))", &format!("{}: {:?} / {:?} / {:?}", $name, arc, carc, some));
        }};
    }
    pub fn run(rep: &mut Report) {
        // the probe must be able to say "no": a raw pointer payload is neither
        if IsSend::<Arc<Neither>>::YES || IsSync::<Arc<Neither>>::YES || !IsSend::<Arc<SendSync>>::YES {
            rep.violation("C10:harness", "auto-trait probe does not discriminate", "");
        }
        row!(rep, SendSync, "SendSync");
        row!(rep, SendNotSync, "SendNotSync");
        row!(rep, SyncNotSend, "SyncNotSend");
        row!(rep, Neither, "Neither");
    }
}

pub fn run(args: &Args, rep: &mut Report) {
    let mut rng = Rng::new(args.seed);
    let mode = args.kv.get("mode").map(|s| s.as_str()).unwrap_or("all");
    // kinds 0..13 (12/13 = drop), slot arg 0..3
    let kinds: u8 = 13;
    let slots: u8 = 3;
    let depth = args.get("depth", 3) as u32;
    if mode == "all" || mode == "exhaustive" {
        let sym = kinds as u64 * slots as u64;
        for len in 1..=depth {
            let total = sym.pow(len);
            for mut code in 0..total {
                let mut ops = Vec::with_capacity(len as usize);
                for _ in 0..len {
                    let s = (code % sym) as u8;
                    code /= sym;
                    ops.push((s / slots, s % slots));
                }
                // a history always starts from some handle: prefix creation of two handles
                let mut full = vec![(0u8, 0u8), (1u8, 1u8)];
                full.extend(ops);
                if run_history(&full, rep) {
                    rep.add("histories_exhaustive", 1);
                }
            }
        }
        rep.add("exhaustive_depth", depth as u64);
    }
    if mode == "all" || mode == "random" {
        let maxlen = args.get("maxlen", 200) as usize;
        for h in 0..args.count {
            let len = 1 + rng.below(maxlen);
            let ops: Vec<(u8, u8)> = (0..len).map(|_| (rng.below(14) as u8, rng.below(4) as u8)).collect();
            let mut dg = 0u64;
            for o in &ops {
                dg = vmon::rng::mix(dg, (o.0 as u64) << 8 | o.1 as u64);
            }
            rep.distinct(dg);
            if h == 0 {
                rep.sample("C10 random history (kind,slot) — kinds: 0 from value,1 from Arc/Option<Arc>,2-3 clone,4 take,5-6 transpose,7 into_opaque,8 into_arc/from,9 default,10-11 deref,12+ drop", &format!("{:?}", &ops[..ops.len().min(40)]));
            }
            if run_history(&ops, rep) {
                rep.add("histories_random", 1);
            }
        }
    }
    if mode == "all" || mode == "random" || mode == "aligned" {
        aligned(&mut rng, args.get("aligned", args.count.min(3000)), rep);
        parity::run(rep);
    }
    if mode == "all" || mode == "forged" {
        let n = args.get("forged", args.count.min(2000));
        for _ in 0..n {
            let len = 1 + rng.below(60);
            forged_history(&mut rng, len, rep);
            rep.add("forged_histories", 1);
            if rep_no_drop_once() { no_drop_fn_case(rep); panic_drop_case(rep); }
        }
    }
    if mode == "all" || mode == "concurrent" {
        let threads = args.get("threads", 4) as usize;
        let ops = args.get("thread_ops", 2000) as usize;
        let runs = args.get("conc_runs", 4);
        for r in 0..runs {
            concurrent(threads, ops, args.seed.wrapping_add(r), rep);
        }
    }
}
