#!/usr/bin/env python3
"""emits src/bin/matrix.rs: the complete (conversion rule x payload class) auto-trait matrix"""
import os
import sys

CLASSES = [("SendSync", "u64"), ("SendNotSync", "::core::cell::Cell<u64>"),
           ("NotSendSync", "NsS"), ("NotSendNotSync", "::std::rc::Rc<u64>")]

# rule name -> handle type with {P} = payload type
# rule name -> (type that is converted to opaque form, instance handle it was built from); {P} = payload type
RULES = [
    ("shared_ref", "&'static {P}", None),
    ("mut_ref", "&'static mut {P}", None),
    ("cbox", "CBox<'static, {P}>", None),
    ("cslicebox", "CSliceBox<'static, {P}>", None),
    ("carc", "CArc<{P}>", None),
    ("carcsome", "CArcSome<{P}>", None),
    ("fwd_mut_ref", "Fwd<&'static mut {P}>", None),
    ("fwd_ref", "Fwd<&'static {P}>", None),
    ("fwd_carc", "Fwd<CArc<{P}>>", None),
    ("fwd_carcsome", "Fwd<CArcSome<{P}>>", None),
    ("fwd_cbox", "Fwd<CBox<'static, {P}>>", None),
    ("container_cbox", "CGlueObjContainer<CBox<'static, {P}>, NoContext, ()>", "CBox<'static, {P}>"),
    ("container_ref", "CGlueObjContainer<&'static {P}, NoContext, ()>", "&'static {P}"),
    ("container_mut", "CGlueObjContainer<&'static mut {P}, NoContext, ()>", "&'static mut {P}"),
    ("container_cbox_ctx", "CGlueObjContainer<CBox<'static, {P}>, CArc<u8>, ()>", "CBox<'static, {P}>"),
    ("object_box", "TrBaseBox<'static, Imp<{P}>>", "CBox<'static, Imp<{P}>>"),
    ("object_mut", "TrBaseMut<'static, Imp<{P}>>", "&'static mut Imp<{P}>"),
    ("object_ref", "TrBaseRef<'static, Imp<{P}>>", "&'static Imp<{P}>"),
    ("object_arcbox", "TrBaseArcBox<'static, Imp<{P}>, u8>", "CBox<'static, Imp<{P}>>"),
    ("object_arcmut", "TrBaseArcMut<'static, Imp<{P}>, u8>", "&'static mut Imp<{P}>"),
    ("object_arcref", "TrBaseArcRef<'static, Imp<{P}>, u8>", "&'static Imp<{P}>"),
    ("object_carcsome_instance", "TrBase<'static, CArcSome<Imp<{P}>>, NoContext>", "CArcSome<Imp<{P}>>"),
    ("group_box", "GrpBaseBox<'static, Imp<{P}>>", "CBox<'static, Imp<{P}>>"),
    ("group_mut", "GrpBaseMut<'static, Imp<{P}>>", "&'static mut Imp<{P}>"),
    ("group_ref", "GrpBaseRef<'static, Imp<{P}>>", "&'static Imp<{P}>"),
    ("group_arcbox", "GrpBaseArcBox<'static, Imp<{P}>, u8>", "CBox<'static, Imp<{P}>>"),
    ("group_arcref", "GrpBaseArcRef<'static, Imp<{P}>, u8>", "&'static Imp<{P}>"),
    # traits whose generated containers carry more than instance and context: temporary storage written through &self, markers for type parameters
    ("object_box_rettmp", "TrRetBaseBox<'static, Imp<{P}>>", "CBox<'static, Imp<{P}>>"),
    ("object_ref_rettmp", "TrRetBaseRef<'static, Imp<{P}>>", "&'static Imp<{P}>"),
    ("object_mut_rettmp", "TrRetBaseMut<'static, Imp<{P}>>", "&'static mut Imp<{P}>"),
    ("object_box_generic", "TrGenBaseBox<'static, Imp<{P}>, {P}>", "CBox<'static, Imp<{P}>>"),
    ("object_ref_generic", "TrGenBaseRef<'static, Imp<{P}>, {P}>", "&'static Imp<{P}>"),
    ("object_mut_generic", "TrGenBaseMut<'static, Imp<{P}>, {P}>", "&'static mut Imp<{P}>"),
    ("group_cast_box", "GrpWithOpt<'static, CBox<'static, Imp<{P}>>, NoContext>", "CBox<'static, Imp<{P}>>"),
]

# handle shapes for which the library has NO conversion rule on the pinned tree: the row is vacuous unless a rule appears, and is then judged like any other
CANDIDATES = [
    ("cand_pin_mut_ref", "::core::pin::Pin<&'static mut {P}>", None),
    ("cand_pin_ref", "::core::pin::Pin<&'static {P}>", None),
    ("cand_pin_cbox", "::core::pin::Pin<CBox<'static, {P}>>", None),
    ("cand_fwd_pin_cbox", "Fwd<::core::pin::Pin<CBox<'static, {P}>>>", None),
    ("cand_container_pin_cbox", "CGlueObjContainer<::core::pin::Pin<CBox<'static, {P}>>, NoContext, ()>", "::core::pin::Pin<CBox<'static, {P}>>"),
    ("cand_object_pin_cbox", "TrBase<'static, ::core::pin::Pin<CBox<'static, Imp<{P}>>>, NoContext>", "::core::pin::Pin<CBox<'static, Imp<{P}>>>"),
    ("cand_group_pin_cbox", "GrpBase<'static, ::core::pin::Pin<CBox<'static, Imp<{P}>>>, NoContext>", "::core::pin::Pin<CBox<'static, Imp<{P}>>>"),
    ("cand_option_cbox", "Option<CBox<'static, {P}>>", None),
    ("cand_option_ref", "Option<&'static {P}>", None),
    ("cand_coption_cbox", "COption<CBox<'static, {P}>>", None),
    ("cand_box", "Box<{P}>", None),
    ("cand_arc", "::std::sync::Arc<{P}>", None),
    ("cand_rc", "::std::rc::Rc<{P}>", None),
    ("cand_const_ptr", "*const {P}", None),
    ("cand_mut_ptr", "*mut {P}", None),
    ("cand_nonnull", "::core::ptr::NonNull<{P}>", None),
    ("cand_cvec", "CVec<{P}>", None),
    ("cand_csliceref", "CSliceRef<'static, {P}>", None),
    ("cand_cslicemut", "CSliceMut<'static, {P}>", None),
    ("cand_tuple_cbox", "(CBox<'static, {P}>,)", None),
]

# the library's smart pointers against the std handle they are built from (From<Arc<T>>, From<Box<T>>, From<Box<[T]>>):
# (rule, pointer type, std handle)
CONSTRUCT = [
    ("build_carc_from_arc", "CArc<{P}>", "::std::sync::Arc<{P}>"),
    ("build_carcsome_from_arc", "CArcSome<{P}>", "::std::sync::Arc<{P}>"),
    ("build_option_carcsome_from_arc", "Option<CArcSome<{P}>>", "Option<::std::sync::Arc<{P}>>"),
    ("build_cbox_from_box", "CBox<'static, {P}>", "Box<{P}>"),
    ("build_cslicebox_from_box", "CSliceBox<'static, {P}>", "Box<[{P}]>"),
]

HEAD = r'''// GENERATED by gen_matrix.py
#![allow(dead_code, non_upper_case_globals, clippy::all)]
use cglue::prelude::v1::*;
use cglue::trait_group::{CGlueObjContainer, NoContext, Opaquable};
use cglue::*;
use core::marker::PhantomData;

pub struct NsS(PhantomData<std::sync::MutexGuard<'static, ()>>);

pub struct Imp<P>(pub P);
#[cglue_trait]
pub trait Tr {
    fn tr(&self) -> u64;
}
#[cglue_trait]
pub trait Opt {
    fn opt(&self) -> u64;
}
#[cglue_trait]
pub trait TrRet {
    #[wrap_with_obj_ref(Opt)]
    type Sub: Opt + 'static;
    fn sub(&self) -> &Self::Sub;
}
#[cglue_trait]
pub trait TrGen<T> {
    fn gen(&self, v: &T) -> u64;
}
impl<P: 'static> TrRet for Imp<P> { type Sub = Imp<P>; fn sub(&self) -> &Imp<P> { self } }
impl<P> TrGen<P> for Imp<P> { fn gen(&self, _v: &P) -> u64 { 3 } }
impl<P> Tr for Imp<P> { fn tr(&self) -> u64 { 1 } }
impl<P> Opt for Imp<P> { fn opt(&self) -> u64 { 2 } }
cglue_trait_group!(Grp, Tr, { Opt });
cglue_impl_group!(Imp<P>, Grp, { Opt });

// auto-trait detection: an inherent associated const shadows the blanket trait const
// exactly when the impl's bounds hold for the concrete type
pub struct Probe<T: ?Sized>(PhantomData<T>);
pub trait Fallback {
    const SEND: bool = false;
    const SYNC: bool = false;
    const OPAQ: bool = false;
    const OSEND: bool = false;
    const OSYNC: bool = false;
}
impl<T: ?Sized> Fallback for Probe<T> {}
impl<T: ?Sized + Send> Probe<T> { pub const SEND: bool = true; }
impl<T: ?Sized + Sync> Probe<T> { pub const SYNC: bool = true; }
impl<T: Opaquable> Probe<T> { pub const OPAQ: bool = true; }
impl<T: Opaquable> Probe<T> where T::OpaqueTarget: Send { pub const OSEND: bool = true; }
impl<T: Opaquable> Probe<T> where T::OpaqueTarget: Sync { pub const OSYNC: bool = true; }

fn row(rule: &str, class: &str, ty: &str, v: [bool; 5]) {
    println!("{{\"k\":\"cell\",\"rule\":\"{}\",\"class\":\"{}\",\"type\":\"{}\",\"h_send\":{},\"h_sync\":{},\"opaquable\":{},\"o_send\":{},\"o_sync\":{}}}", rule, class, ty.replace('"', "'"), v[0], v[1], v[2], v[3], v[4]);
}

fn main() {
    // self-test of the detector on types whose auto traits are known
    let st = [
        (<Probe<u64>>::SEND, true), (<Probe<u64>>::SYNC, true),
        (<Probe<::core::cell::Cell<u64>>>::SEND, true), (<Probe<::core::cell::Cell<u64>>>::SYNC, false),
        (<Probe<::std::rc::Rc<u64>>>::SEND, false), (<Probe<::std::rc::Rc<u64>>>::SYNC, false),
        (<Probe<NsS>>::SEND, false), (<Probe<NsS>>::SYNC, true),
        (<Probe<&'static u64>>::OPAQ, true), (<Probe<u64>>::OPAQ, false),
    ];
    let ok = st.iter().all(|(a, b)| a == b);
    println!("{{\"k\":\"stat\",\"detector_selftest_ok\":{}}}", ok as u64);
'''


def main():
    out = os.path.join(os.path.dirname(os.path.abspath(__file__)), "src", "bin", "matrix.rs")
    body = [HEAD]
    for rname, rty, hty in RULES + CANDIDATES:
        for cname, cty in CLASSES:
            ty = rty.replace("{P}", cty)
            h = (hty or rty).replace("{P}", cty)
            body.append("    row(\"%s\", \"%s\", \"%s\", [<Probe<%s>>::SEND, <Probe<%s>>::SYNC, <Probe<%s>>::OPAQ, <Probe<%s>>::OSEND, <Probe<%s>>::OSYNC]);" % (rname, cname, ty, h, h, ty, ty, ty))
    for rname, pty, hty in CONSTRUCT:
        for cname, cty in CLASSES:
            p = pty.replace("{P}", cty)
            h = hty.replace("{P}", cty)
            body.append("    row(\"%s\", \"%s\", \"%s\", [<Probe<%s>>::SEND, <Probe<%s>>::SYNC, true, <Probe<%s>>::SEND, <Probe<%s>>::SYNC]);" % (rname, cname, p, h, h, p, p))
    body.append("    println!(\"{{\\\"k\\\":\\\"done\\\"}}\");\n}\n")
    text = "\n".join(body)
    if not os.path.exists(out) or open(out).read() != text:
        open(out, "w").write(text)
    print((len(RULES) + len(CONSTRUCT)) * len(CLASSES), "cells")


if __name__ == "__main__":
    main()
