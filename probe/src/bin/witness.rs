//! Race witnesses for C09 cells: *safe code only*.  Each scenario moves or shares an opaque
//! object across threads although the instance handle it was built from could not be, and
//! touches the non-thread-safe payload from both.  Under Miri's data-race detector this must
//! be reported: that is the failing schedule against the real code.
#![allow(dead_code, clippy::all)]
use cglue::prelude::v1::*;
use cglue::*;
use std::cell::Cell;
use std::rc::Rc;

pub struct Imp<P>(pub P);
#[cglue_trait]
pub trait Bump {
    fn bump(&self) -> u64;
}
#[cglue_trait]
pub trait Dup {
    fn dup(&mut self) -> u64;
}
#[cglue_trait]
pub trait Other {
    fn other(&self) -> u64;
}
impl Bump for Imp<Cell<u64>> {
    fn bump(&self) -> u64 { self.0.set(self.0.get() + 1); self.0.get() }
}
impl Other for Imp<Cell<u64>> {
    fn other(&self) -> u64 { 0 }
}
impl Dup for Imp<Rc<Cell<u64>>> {
    fn dup(&mut self) -> u64 { let c = self.0.clone(); c.get() }
}
cglue_trait_group!(BumpGroup, Bump, { Other });
cglue_impl_group!(Imp<Cell<u64>>, BumpGroup, { Other });

fn main() {
    let which = std::env::args().nth(1).unwrap_or_default();
    match which.as_str() {
        // &T -> &c_void adds Send for T: !Sync
        "object_ref" => {
            let imp: &'static Imp<Cell<u64>> = Box::leak(Box::new(Imp(Cell::new(0))));
            let obj = trait_obj!(imp as Bump);
            let t = std::thread::spawn(move || { for _ in 0..3 { obj.bump(); } });
            for _ in 0..3 { imp.bump(); }
            t.join().unwrap();
        }
        // CBox<T: Send + !Sync> -> CBox<c_void> adds Sync
        "object_box_shared" => {
            let obj = trait_obj!(Imp(Cell::new(0)) as Bump);
            std::thread::scope(|s| {
                s.spawn(|| { for _ in 0..3 { obj.bump(); } });
                s.spawn(|| { for _ in 0..3 { obj.bump(); } });
            });
        }
        // CArcSome<T> -> CArcSome<c_void> adds Send + Sync for any T
        "object_carcsome" => {
            let obj = trait_obj!(CArcSome::from(Imp(Cell::new(0))) as Bump);
            std::thread::scope(|s| {
                s.spawn(|| { for _ in 0..3 { obj.bump(); } });
                s.spawn(|| { for _ in 0..3 { obj.bump(); } });
            });
        }
        // &mut T -> &mut c_void adds Send for T: !Send
        "object_mut_rc" => {
            let rc = Rc::new(Cell::new(0u64));
            let imp: &'static mut Imp<Rc<Cell<u64>>> = Box::leak(Box::new(Imp(rc.clone())));
            let mut obj = trait_obj!(imp as Dup);
            let t = std::thread::spawn(move || { for _ in 0..3 { obj.dup(); } });
            for _ in 0..3 { let c = rc.clone(); drop(c); }
            t.join().unwrap();
        }
        // groups inherit it
        "group_ref" => {
            let imp: &'static Imp<Cell<u64>> = Box::leak(Box::new(Imp(Cell::new(0))));
            let g = group_obj!(imp as BumpGroup);
            let t = std::thread::spawn(move || { for _ in 0..3 { g.bump(); } });
            for _ in 0..3 { imp.bump(); }
            t.join().unwrap();
        }
        _ => { eprintln!("unknown scenario"); std::process::exit(64); }
    }
    println!("finished without a detected race");
}
