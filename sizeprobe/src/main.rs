//! Sizes the real Rust definitions of examples/plugin-api give to the types that the shipped
//! headers describe: calibration of the size model in /verif/bindgen/emit.py (rust_sizes).
use plugin_api::*;
use std::mem::{align_of, size_of};

fn main() {
    println!(
        "{{\"obj:PluginInner:Box:Arc\":[{},{}],\"group:FeaturesGroup:Box:Arc\":[{},{}],\"group:FeaturesGroup:Mut:Arc\":[{},{}]}}",
        size_of::<PluginInnerArcBox>(),
        align_of::<PluginInnerArcBox>(),
        size_of::<FeaturesGroupArcBox>(),
        align_of::<FeaturesGroupArcBox>(),
        size_of::<FeaturesGroupArcMut>(),
        align_of::<FeaturesGroupArcMut>()
    );
}
