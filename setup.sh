#!/bin/bash
# Offline warm-up: build every harness against the current /repo tree so that the first
# check does not pay the compile time.  Safe to run repeatedly.
set -u
cd "$(dirname "$0")"
export CARGO_NET_OFFLINE=true
python3 lib/setup.py
