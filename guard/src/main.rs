//! C07, last clause: during a by-value (consuming) call the context is not released before
//! control has returned to the caller.  The object is the *sole* owner of the context; the
//! context payload's Drop captures a backtrace and we look for a generated `cglue_wrapped_*`
//! frame on it: with the caller-side guard the last reference dies in the caller, without it
//! inside the wrapper (= inside the library the context keeps loaded).
#![allow(dead_code, clippy::all)]
use cglue::prelude::v1::*;
use cglue::*;
use std::sync::atomic::{AtomicU64, Ordering};
use std::sync::{Arc, Mutex, Weak};

static TRACES: Mutex<Vec<(u64, String)>> = Mutex::new(Vec::new());
static DROPS_AT_DECODE: AtomicU64 = AtomicU64::new(u64::MAX);
static DROPS: AtomicU64 = AtomicU64::new(0);

pub struct Lib(pub u64);
impl Drop for Lib {
    fn drop(&mut self) {
        DROPS.fetch_add(1, Ordering::SeqCst);
        let bt = std::backtrace::Backtrace::force_capture().to_string();
        TRACES.lock().unwrap().push((self.0, bt));
    }
}

/// plain `Clone` context (not a CArc): the same guarantee must hold for any context type
#[derive(Clone)]
pub struct PlainCtx(pub Arc<Lib>);

pub struct GErr(i32);
impl IntError for GErr {
    fn into_int_err(self) -> core::num::NonZeroI32 {
        core::num::NonZeroI32::new(self.0).unwrap()
    }
    fn from_int_err(e: core::num::NonZeroI32) -> Self {
        // runs in the caller, after the extern "C" call returned
        DROPS_AT_DECODE.store(DROPS.load(Ordering::SeqCst), Ordering::SeqCst);
        GErr(e.get())
    }
}

#[cglue_trait]
pub trait Fin {
    fn peek(&self) -> u64;
    fn fin_val(self) -> u64;
    fn fin_unit(self);
    #[int_result]
    fn fin_res(self, fail: bool) -> Result<u64, GErr>;
}
#[cglue_trait]
pub trait Other {
    fn other(&self) -> u64;
}
cglue_trait_group!(FinGroup, Fin, { Other });

pub struct Imp(u64);
impl Fin for Imp {
    fn peek(&self) -> u64 { self.0 }
    fn fin_val(self) -> u64 { self.0 + 1 }
    fn fin_unit(self) {}
    fn fin_res(self, fail: bool) -> Result<u64, GErr> { if fail { Err(GErr(7)) } else { Ok(self.0) } }
}
impl Other for Imp { fn other(&self) -> u64 { 5 } }
cglue_impl_group!(Imp, FinGroup, { Other });

/// consuming calls whose result wraps a returned object: on the failing side nothing is returned
/// that could keep the context alive, so only the caller's guard does
#[cglue_trait]
pub trait FinW {
    #[wrap_with_obj(Other)]
    type Owned: Other + 'static;
    fn fin_wrapped(self, fail: bool) -> Result<Self::Owned, u8>;
    #[int_result]
    fn fin_wrapped_int(self, fail: bool) -> Result<Self::Owned, GErr>;
    fn fin_direct(self) -> Self::Owned;
}
impl FinW for Imp {
    type Owned = Imp;
    fn fin_wrapped(self, fail: bool) -> Result<Imp, u8> { if fail { Err(3) } else { Ok(self) } }
    fn fin_wrapped_int(self, fail: bool) -> Result<Imp, GErr> { if fail { Err(GErr(9)) } else { Ok(self) } }
    fn fin_direct(self) -> Imp { self }
}

/// a trait with a lifetime parameter that lends a wrapped child bound to that lifetime
#[cglue_trait]
pub trait Lender<'a> {
    #[wrap_with_obj(Other)]
    type Lent: Other + 'a;
    fn lend(&'a mut self) -> Self::Lent;
    fn lender_id(&self) -> u64;
}
pub struct LentImp<'a>(&'a mut Imp);
impl<'a> Other for LentImp<'a> { fn other(&self) -> u64 { self.0 .0 + 40 } }
impl<'a> Lender<'a> for Imp {
    type Lent = LentImp<'a>;
    fn lend(&'a mut self) -> LentImp<'a> { LentImp(self) }
    fn lender_id(&self) -> u64 { self.0 }
}

/// an instance whose destructor needs the context (think: code that lives in the library the
/// context keeps loaded): its Drop records whether the context was still alive
static DEP_DROPS: Mutex<Vec<(u64, usize)>> = Mutex::new(Vec::new());
pub struct Dep(u64, Weak<Lib>);
impl Drop for Dep {
    fn drop(&mut self) {
        DEP_DROPS.lock().unwrap().push((self.0, self.1.strong_count()));
    }
}
impl Fin for Dep {
    fn peek(&self) -> u64 { self.0 }
    fn fin_val(self) -> u64 { self.0 + 1 }
    fn fin_unit(self) {}
    fn fin_res(self, fail: bool) -> Result<u64, GErr> { if fail { Err(GErr(7)) } else { Ok(self.0) } }
}
impl Other for Dep { fn other(&self) -> u64 { 6 } }
cglue_impl_group!(Dep, FinGroup, { Other });

fn dep_report(case: &str, id: u64, viol: &mut u64, n: &mut u64) {
    *n += 1;
    let d = DEP_DROPS.lock().unwrap();
    match d.iter().filter(|x| x.0 == id).collect::<Vec<_>>().as_slice() {
        [(_, alive)] if *alive >= 1 => {}
        [(_, _)] => {
            println!("{{\"k\":\"violation\",\"sig\":\"C07:context-released-before-instance-destructor\",\"detail\":\"{}: the object was the last holder of the context; when its instance was destroyed the context was already gone\",\"replay\":\"{}\"}}", case, case);
            *viol += 1;
        }
        other => {
            println!("{{\"k\":\"violation\",\"sig\":\"C07:harness\",\"detail\":\"{}: instance destroyed {} times\",\"replay\":\"{}\"}}", case, other.len(), case);
            *viol += 1;
        }
    }
}

#[inline(never)]
fn cglue_wrapped_canary(l: Arc<Lib>) {
    drop(l);
}

fn verdict(id: u64) -> Option<(bool, String)> {
    let t = TRACES.lock().unwrap();
    t.iter().find(|x| x.0 == id).map(|x| (x.1.contains("cglue_wrapped_"), x.1.clone()))
}

fn report(case: &str, id: u64, weak: &Weak<Lib>, viol: &mut u64, n: &mut u64) {
    *n += 1;
    if weak.strong_count() != 0 {
        println!("{{\"k\":\"violation\",\"sig\":\"C07:context-not-released\",\"detail\":\"{}: the consumed object was the only holder but the context is still alive\",\"replay\":\"{}\"}}", case, case);
        *viol += 1;
        return;
    }
    match verdict(id) {
        Some((true, bt)) => {
            let frames: Vec<&str> = bt.lines().filter(|l| l.contains("cglue_wrapped_") || l.contains("guard::")).take(6).collect();
            println!("{{\"k\":\"violation\",\"sig\":\"C07:context-released-inside-consuming-call\",\"detail\":\"{}: the last context reference was released while a generated wrapper was still on the stack: {}\",\"replay\":\"{}\"}}", case, frames.join(" | ").replace('"', "'"), case);
            *viol += 1;
        }
        Some((false, _)) => {}
        None => {
            println!("{{\"k\":\"violation\",\"sig\":\"C07:context-not-released\",\"detail\":\"{}: context payload never dropped\",\"replay\":\"{}\"}}", case, case);
            *viol += 1;
        }
    }
}


/// a context made by a foreign host: `clone_fn` hands out a *new handle* for every reference and `drop_fn` retires exactly the
/// handle it is given (the reason `CArc` is a repr(C) triple of instance + two functions). Monitor: no handle is retired twice,
/// nothing is cloned through a retired handle, and once every object is gone every handle ever issued has been retired.
mod foreign {
    use super::*;
    pub struct Handle { id: usize }
    pub struct Host { pub live: Vec<bool>, pub errors: Vec<String> }
    pub static HOST: Mutex<Host> = Mutex::new(Host { live: Vec::new(), errors: Vec::new() });
    fn new_handle(h: &mut Host) -> &'static Handle {
        h.live.push(true);
        // never deallocated, so that a stale handle is diagnosed instead of being undefined behaviour
        Box::leak(Box::new(Handle { id: h.live.len() - 1 }))
    }
    unsafe extern "C" fn host_clone(h: Option<&'static Handle>) -> Option<&'static Handle> {
        let mut host = HOST.lock().unwrap();
        let h = h.expect("null handle");
        if !host.live[h.id] { let m = format!("clone through retired handle #{}", h.id); host.errors.push(m); }
        Some(new_handle(&mut host))
    }
    unsafe extern "C" fn host_drop(h: Option<&Handle>) {
        let mut host = HOST.lock().unwrap();
        let h = h.expect("null handle");
        if !host.live[h.id] { let m = format!("handle #{} retired twice", h.id); host.errors.push(m); return; }
        host.live[h.id] = false;
    }
    #[repr(C)]
    struct RawArc {
        instance: Option<&'static Handle>,
        clone_fn: Option<unsafe extern "C" fn(Option<&'static Handle>) -> Option<&'static Handle>>,
        drop_fn: Option<unsafe extern "C" fn(Option<&Handle>)>,
    }
    pub fn context() -> CArc<Handle> {
        let raw = RawArc { instance: Some(new_handle(&mut HOST.lock().unwrap())), clone_fn: Some(host_clone), drop_fn: Some(host_drop) };
        assert_eq!(std::mem::size_of::<RawArc>(), std::mem::size_of::<CArc<Handle>>());
        unsafe { std::mem::transmute(raw) }
    }
    pub fn live() -> usize { HOST.lock().unwrap().live.iter().filter(|l| **l).count() }
    pub fn reset() -> Vec<String> { let mut h = HOST.lock().unwrap(); h.live.clear(); std::mem::take(&mut h.errors) }

    pub fn run(viol: &mut u64, n: &mut u64) {
        macro_rules! fcase {
            ($name:expr, $body:expr) => {{
                reset();
                let mut notes: Vec<String> = vec![];
                { let ctx = context(); let f: &dyn Fn(CArc<Handle>, &mut Vec<String>) = &$body; f(ctx, &mut notes); }
                let left = live();
                let issued = HOST.lock().unwrap().live.len();
                let mut errs = reset();
                errs.extend(notes);
                if left != 0 { errs.push(format!("{} of {} handles issued were never retired", left, issued)); }
                *n += 1;
                if !errs.is_empty() {
                    println!("{{\"k\":\"violation\",\"sig\":\"C07:foreign-context-handle\",\"detail\":\"{}: {}\",\"replay\":\"{}\"}}", $name, errs.join("; ").replace('"', "'"), $name);
                    *viol += 1;
                }
            }};
        }
        let expect = |notes: &mut Vec<String>, what: &str, want: usize| { let l = live(); if l != want { notes.push(format!("{}: {} live handles, expected {}", what, l, want)); } };
        fcase!("handle ctx: clones of the pointer itself", |c: CArc<Handle>, notes: &mut Vec<String>| {
            let a = c.clone(); let b = a.clone(); expect(notes, "after two clones", 3);
            drop(a); expect(notes, "first clone dropped", 2);
            let s = b.transpose().expect("non-empty"); let s2 = s.clone(); expect(notes, "CArcSome clone", 3);
            drop(s); drop(c); expect(notes, "two dropped", 1); drop(s2);
        });
        fcase!("handle ctx: object created and dropped", |c: CArc<Handle>, notes: &mut Vec<String>| {
            let o = trait_obj!((Imp(1), c) as Fin); let _ = o.peek(); expect(notes, "object alive", 1); drop(o);
        });
        fcase!("handle ctx: consuming call", |c: CArc<Handle>, _notes: &mut Vec<String>| { let o = trait_obj!((Imp(1), c) as Fin); let _ = o.fin_val(); });
        fcase!("handle ctx: consuming call returning a wrapped child", |c: CArc<Handle>, notes: &mut Vec<String>| {
            let o = trait_obj!((Imp(1), c) as FinW); let r = o.fin_direct(); expect(notes, "child alive, parent consumed", 1); let _ = r.other(); drop(r);
        });
        fcase!("handle ctx: Result-wrapped child, Ok", |c: CArc<Handle>, notes: &mut Vec<String>| {
            let o = trait_obj!((Imp(1), c) as FinW); let r = o.fin_wrapped(false).ok().expect("Ok"); expect(notes, "child alive, parent consumed", 1); let _ = r.other(); drop(r);
        });
        fcase!("handle ctx: Result-wrapped child, Err", |c: CArc<Handle>, _notes: &mut Vec<String>| { let o = trait_obj!((Imp(1), c) as FinW); let _ = o.fin_wrapped_int(true); });
        fcase!("handle ctx: lent child, parent used afterwards", |c: CArc<Handle>, notes: &mut Vec<String>| {
            let mut o = trait_obj!((Imp(5), c) as Lender);
            { let ch = o.lend(); expect(notes, "parent and lent child alive", 2); let _ = ch.other(); }
            expect(notes, "lent child dropped", 1);
            let _ = o.lender_id();
            { let ch = o.lend(); let _ = ch.other(); }
            expect(notes, "second lent child dropped", 1);
            drop(o);
        });
        fcase!("handle ctx: group, cast, upcast", |c: CArc<Handle>, notes: &mut Vec<String>| {
            let g = group_obj!((Imp(1), c) as FinGroup); let w = cast!(g impl Other).expect("enabled"); let _ = w.other(); expect(notes, "cast group alive", 1);
            let g = w.upcast(); let f = into!(g impl Other).expect("enabled"); expect(notes, "final group alive", 1); f.fin_unit();
        });
    }
}

fn main() {
    let mut viol = 0u64;
    let mut n = 0u64;
    // canary: the oracle must see a wrapper frame when there is one
    {
        let l = Arc::new(Lib(1));
        cglue_wrapped_canary(l);
    }
    let canary = verdict(1).map(|v| v.0).unwrap_or(false);
    let mut id = 100u64;
    macro_rules! case {
        ($name:expr, $mk:expr, $call:expr) => {{
            id += 1;
            let lib = Arc::new(Lib(id));
            let weak = Arc::downgrade(&lib);
            let obj = $mk(lib);
            $call(obj);
            report($name, id, &weak, &mut viol, &mut n);
        }};
    }
    case!("object+CArc ctx: fin_val", |l: Arc<Lib>| trait_obj!((Imp(1), CArc::<Lib>::from(l)) as Fin), |o: FinCtxBox<CArc<Lib>>| { let _ = o.fin_val(); });
    case!("object+CArc ctx: fin_unit", |l: Arc<Lib>| trait_obj!((Imp(1), CArc::<Lib>::from(l)) as Fin), |o: FinCtxBox<CArc<Lib>>| { o.fin_unit(); });
    case!("object+CArc ctx: fin_res Ok", |l: Arc<Lib>| trait_obj!((Imp(1), CArc::<Lib>::from(l)) as Fin), |o: FinCtxBox<CArc<Lib>>| { let _ = o.fin_res(false); });
    DROPS_AT_DECODE.store(u64::MAX, Ordering::SeqCst);
    let d0 = DROPS.load(Ordering::SeqCst);
    case!("object+CArc ctx: fin_res Err", |l: Arc<Lib>| trait_obj!((Imp(1), CArc::<Lib>::from(l)) as Fin), |o: FinCtxBox<CArc<Lib>>| { let _ = o.fin_res(true); });
    let at_decode = DROPS_AT_DECODE.load(Ordering::SeqCst);
    case!("object+plain Clone ctx: fin_val", |l: Arc<Lib>| trait_obj!((Imp(1), PlainCtx(l)) as Fin), |o: FinCtxBox<PlainCtx>| { let _ = o.fin_val(); });
    case!("object+plain Clone ctx: fin_res Err", |l: Arc<Lib>| trait_obj!((Imp(1), PlainCtx(l)) as Fin), |o: FinCtxBox<PlainCtx>| { let _ = o.fin_res(true); });
    case!("group+CArc ctx: fin_val", |l: Arc<Lib>| group_obj!((Imp(1), CArc::<Lib>::from(l)) as FinGroup), |o: FinGroupCtxBox<CArc<Lib>>| { let _ = o.fin_val(); });
    case!("group cast+CArc ctx: fin_unit", |l: Arc<Lib>| group_obj!((Imp(1), CArc::<Lib>::from(l)) as FinGroup), |o: FinGroupCtxBox<CArc<Lib>>| { let c = cast!(o impl Other).unwrap(); let _ = c.other(); c.fin_unit(); });
    case!("group into+CArc ctx: fin_res Err", |l: Arc<Lib>| group_obj!((Imp(1), CArc::<Lib>::from(l)) as FinGroup), |o: FinGroupCtxBox<CArc<Lib>>| { let c = into!(o impl Other).unwrap(); let _ = c.fin_res(true); });
    // sanity of the harness itself: dropping (not consuming) releases the context in our frame
    case!("object+CArc ctx: plain drop", |l: Arc<Lib>| trait_obj!((Imp(1), CArc::<Lib>::from(l)) as Fin), |o: FinCtxBox<CArc<Lib>>| { let _ = o.peek(); drop(o); });
    // result-wrapped returns of consuming calls: failing side (nothing returned) and successful side
    case!("object+CArc ctx: fin_wrapped Err", |l: Arc<Lib>| trait_obj!((Imp(1), CArc::<Lib>::from(l)) as FinW), |o: FinWCtxBox<CArc<Lib>>| { let r = o.fin_wrapped(true); assert!(matches!(r, Err(3))); });
    case!("object+CArc ctx: fin_wrapped_int Err", |l: Arc<Lib>| trait_obj!((Imp(1), CArc::<Lib>::from(l)) as FinW), |o: FinWCtxBox<CArc<Lib>>| { let r = o.fin_wrapped_int(true); assert!(r.is_err()); });
    case!("object+plain ctx: fin_wrapped Err", |l: Arc<Lib>| trait_obj!((Imp(1), PlainCtx(l)) as FinW), |o: FinWCtxBox<PlainCtx>| { let r = o.fin_wrapped(true); assert!(r.is_err()); });
    case!("object+CArc ctx: fin_wrapped Ok, child dropped later", |l: Arc<Lib>| trait_obj!((Imp(1), CArc::<Lib>::from(l)) as FinW), |o: FinWCtxBox<CArc<Lib>>| { let r = o.fin_wrapped(false).ok().expect("Ok"); let _ = r.other(); drop(r); });
    case!("object+CArc ctx: fin_direct, child dropped later", |l: Arc<Lib>| trait_obj!((Imp(1), CArc::<Lib>::from(l)) as FinW), |o: FinWCtxBox<CArc<Lib>>| { let r = o.fin_direct(); let _ = r.other(); drop(r); });
    // a lent child (associated type bound to the trait's lifetime) holds its own clone of the context while it lives
    {
        id += 1;
        let lib = Arc::new(Lib(id));
        let weak = Arc::downgrade(&lib);
        let mut obj = trait_obj!((Imp(5), CArc::<Lib>::from(lib)) as Lender);
        let c0 = weak.strong_count();
        {
            let child = obj.lend();
            let c1 = weak.strong_count();
            n += 1;
            if c1 != c0 + 1 {
                println!("{{\"k\":\"violation\",\"sig\":\"C07:lent-child-holds-no-context-clone\",\"detail\":\"lifetime-bound lent child: context count {} while the child is alive, {} before (own clone expected)\",\"replay\":\"lend\"}}", c1, c0);
                viol += 1;
            }
            let _ = child.other();
        }
        let c2 = weak.strong_count();
        n += 1;
        if c2 != c0 {
            println!("{{\"k\":\"violation\",\"sig\":\"C07:context-count\",\"detail\":\"lifetime-bound lent child dropped: context count {} (was {} before the child existed)\",\"replay\":\"lend\"}}", c2, c0);
            viol += 1;
        }
        drop(obj);
        n += 1;
        if weak.strong_count() != 0 {
            println!("{{\"k\":\"violation\",\"sig\":\"C07:context-not-released\",\"detail\":\"lender dropped, context still has {} references\",\"replay\":\"lend\"}}", weak.strong_count());
            viol += 1;
        }
    }
    // the context must outlive the instance's destructor when the object is its last holder
    macro_rules! dcase {
        ($name:expr, $mk:expr, $call:expr) => {{
            id += 1;
            let lib = Arc::new(Lib(id));
            let dep = Dep(id, Arc::downgrade(&lib));
            let obj = $mk(dep, lib);
            $call(obj);
            dep_report($name, id, &mut viol, &mut n);
        }};
    }
    dcase!("drop of object+CArc ctx", |d: Dep, l: Arc<Lib>| trait_obj!((d, CArc::<Lib>::from(l)) as Fin), |o: FinCtxBox<CArc<Lib>>| { let _ = o.peek(); drop(o); });
    dcase!("drop of object+plain ctx", |d: Dep, l: Arc<Lib>| trait_obj!((d, PlainCtx(l)) as Fin), |o: FinCtxBox<PlainCtx>| { drop(o); });
    dcase!("drop of group+CArc ctx", |d: Dep, l: Arc<Lib>| group_obj!((d, CArc::<Lib>::from(l)) as FinGroup), |o: FinGroupCtxBox<CArc<Lib>>| { drop(o); });
    dcase!("drop of cast group+CArc ctx", |d: Dep, l: Arc<Lib>| group_obj!((d, CArc::<Lib>::from(l)) as FinGroup), |o: FinGroupCtxBox<CArc<Lib>>| { let c = cast!(o impl Other).unwrap(); drop(c); });
    dcase!("drop of final group+CArc ctx", |d: Dep, l: Arc<Lib>| group_obj!((d, CArc::<Lib>::from(l)) as FinGroup), |o: FinGroupCtxBox<CArc<Lib>>| { let c = into!(o impl Other).unwrap(); drop(c); });
    dcase!("failing cast of group+CArc ctx", |d: Dep, l: Arc<Lib>| group_obj!((d, CArc::<Lib>::from(l)) as FinGroup), |o: FinGroupCtxBox<CArc<Lib>>| { let o = o.into_opaque(); drop(o); });
    dcase!("consumed object+CArc ctx: fin_val", |d: Dep, l: Arc<Lib>| trait_obj!((d, CArc::<Lib>::from(l)) as Fin), |o: FinCtxBox<CArc<Lib>>| { let _ = o.fin_val(); });
    dcase!("consumed object+CArc ctx: fin_res Err", |d: Dep, l: Arc<Lib>| trait_obj!((d, CArc::<Lib>::from(l)) as Fin), |o: FinCtxBox<CArc<Lib>>| { let _ = o.fin_res(true); });
    dcase!("consumed group+plain ctx: fin_unit", |d: Dep, l: Arc<Lib>| group_obj!((d, PlainCtx(l)) as FinGroup), |o: FinGroupCtxBox<PlainCtx>| { o.fin_unit(); });
    foreign::run(&mut viol, &mut n);
    println!("{{\"k\":\"sample\",\"what\":\"C07 guard case\",\"case\":\"object is the only holder of the context; fin_val(self) -> u64 is called; the payload's Drop captures a backtrace; a cglue_wrapped_* frame on it means the context died inside the consuming call\"}}");
    println!("{{\"k\":\"stat\",\"guard_cases\":{},\"guard_violations\":{},\"canary_wrapper_frame_seen\":{},\"drops_seen_by_caller_side_decoder\":{},\"drops_before_that_call\":{}}}", n, viol, canary as u64, if at_decode == u64::MAX { 0 } else { at_decode }, d0);
    println!("{{\"k\":\"done\"}}");
}
